// The `hist` driver: executes multi-replica schedules against the real library under a
// watchdog and records one event (with the projected Observation) per API call.
use crate::gen::{self, GenCfg};
use crate::jsonx::{canon_sha, sha, tok};
use crate::obs::{docproj_json, observe, project_doc, Replica, Tables};
use crate::prng::Prng;
use crate::store::{Store, VerifAdapter};
use melda::adapter::Adapter;
use melda::melda::{DeltaId, Melda};
use serde_json::{json, Map, Value};
use std::collections::{BTreeMap, BTreeSet, HashMap};
use std::panic::{catch_unwind, AssertUnwindSafe};
use std::sync::mpsc::{channel, RecvTimeoutError, Sender};
use std::sync::{Arc, Mutex, RwLock};
use std::time::{Duration, Instant};

pub enum Msg {
    Begin(String),
    Event(Value),
    Done,
}

/// One rayon pool per run: a call that never returns wedges its pool, which must not affect other runs.
pub fn make_pool(n: usize) -> Arc<rayon::ThreadPool> {
    Arc::new(rayon::ThreadPoolBuilder::new().num_threads(n.max(1)).build().unwrap())
}

pub fn new_adapter(store: &Arc<Mutex<Store>>) -> Arc<RwLock<Box<dyn Adapter>>> {
    let a: Box<dyn Adapter> = Box::new(VerifAdapter::new(store.clone()));
    Arc::new(RwLock::new(a))
}

fn panic_msg(e: Box<dyn std::any::Any + Send>) -> String {
    if let Some(s) = e.downcast_ref::<&str>() {
        s.to_string()
    } else if let Some(s) = e.downcast_ref::<String>() {
        s.clone()
    } else {
        "panic".to_string()
    }
}

/// Outcome of one API call.
pub struct Outcome {
    pub kind: &'static str, // ok | err | panic
    pub msg: String,
    pub val: Value,
}

fn call<T, F: FnOnce() -> anyhow::Result<T>, G: FnOnce(&T) -> Value>(pool: &Arc<rayon::ThreadPool>, f: F, g: G) -> Outcome
where
    F: Send,
    T: Send,
{
    let r = catch_unwind(AssertUnwindSafe(|| pool.install(f)));
    match r {
        Ok(Ok(v)) => Outcome { kind: "ok", msg: String::new(), val: g(&v) },
        Ok(Err(e)) => Outcome { kind: "err", msg: e.to_string(), val: Value::Null },
        Err(e) => Outcome { kind: "panic", msg: panic_msg(e), val: Value::Null },
    }
}

pub struct Run {
    pub id: u64,
    pub pool: usize,
    pub tp: Arc<rayon::ThreadPool>,
    pub reps: Vec<Option<Replica>>,
    pub stores: Vec<Arc<Mutex<Store>>>,
    pub tables: Arc<Mutex<Tables>>,
    pub tx: Sender<Msg>,
    pub i: u64,
    pub headsets: Vec<BTreeSet<String>>,
    pub dead: bool,
    pub full: bool,
    pub commits: u64,
    pub gencfg: GenCfg,
    pub universe: usize,
    pub quiet: bool,
    pub last_export: HashMap<usize, Option<Value>>,
    /// model block number -> keys written by that commit (for schedules emitted by the model)
    pub written_by: HashMap<u64, Vec<String>>,
    pub last_doc: HashMap<usize, Map<String, Value>>,
    pub doc_hist: HashMap<usize, Vec<Map<String, Value>>>,
    pub last_info: HashMap<usize, Option<Map<String, Value>>>,
}

fn rname(r: usize) -> String {
    format!("r{}", r)
}

impl Run {
    pub fn new(id: u64, nrep: usize, pool: usize, tx: Sender<Msg>, tables: Arc<Mutex<Tables>>, spec: &Value) -> Run {
        let mut run = Run {
            id,
            pool,
            tp: make_pool(pool),
            reps: vec![],
            stores: vec![],
            tables,
            tx,
            i: 0,
            headsets: vec![],
            dead: false,
            full: spec.get("full").and_then(|v| v.as_bool()).unwrap_or(true),
            commits: 0,
            gencfg: GenCfg {
                floats: spec.get("floats").and_then(|v| v.as_bool()).unwrap_or(false),
                nasty: spec.get("nasty").and_then(|v| v.as_bool()).unwrap_or(true),
            },
            universe: spec.get("universe").and_then(|v| v.as_u64()).unwrap_or(12) as usize,
            quiet: false,
            last_export: HashMap::new(),
            written_by: HashMap::new(),
            last_doc: HashMap::new(),
            doc_hist: HashMap::new(),
            last_info: HashMap::new(),
        };
        let list_seed = spec.get("list_seed").and_then(|v| v.as_u64());
        let backend = spec.get("backend").and_then(|v| v.as_str()).map(|s| s.to_string());
        let tmpdir = spec.get("tmpdir").and_then(|v| v.as_str()).unwrap_or("/verif/out/tmp/hist").to_string();
        for r in 0..nrep {
            let mut st = match &backend {
                Some(b) => {
                    let dir = format!("{}/run{}_r{}", tmpdir, id, r);
                    let _ = std::fs::remove_dir_all(&dir);
                    Store::new_inner(crate::kv::make_stack(b, &dir).expect("backend stack"))
                }
                None => Store::new_own(),
            };
            st.list_seed = list_seed.map(|s| s.wrapping_add(r as u64));
            let store = Arc::new(Mutex::new(st));
            let melda = Melda::new(new_adapter(&store)).expect("open on empty storage");
            run.stores.push(store.clone());
            run.reps.push(Some(Replica { name: rname(r), melda, store, order_memo: HashMap::new(), root: None }));
        }
        run
    }

    fn obs(&mut self, r: usize) -> Value {
        let full = self.full;
        let tables = self.tables.clone();
        let rep = self.reps[r].as_mut().unwrap();
        let res = catch_unwind(AssertUnwindSafe(|| {
            let mut t = tables.lock().unwrap_or_else(|e| e.into_inner());
            observe(&mut t, rep, full)
        }));
        match res {
            Ok(v) => v,
            Err(e) => {
                self.dead = true;
                // the block status (hook H2) is still worth having: the known-finding classifier needs it
                let rep = self.reps[r].as_ref().unwrap();
                let status = catch_unwind(AssertUnwindSafe(|| {
                    crate::obs::status_map(rep).into_iter().map(|(k, v)| (tok(&k), Value::from(v))).collect::<Map<String, Value>>()
                }))
                .unwrap_or_default();
                json!({"projpanic": tok(&panic_msg(e)), "status": status})
            }
        }
    }

    /// Observation of a replica freshly opened on a copy of `items`.
    fn fresh_obs(&mut self, items: &BTreeMap<String, Arc<Vec<u8>>>) -> Value {
        let store = Arc::new(Mutex::new(Store::from_items(items)));
        let full = self.full;
        let tables = self.tables.clone();
        let p = self.tp.clone();
        let res = catch_unwind(AssertUnwindSafe(|| {
            match p.install(|| Melda::new(new_adapter(&store))) {
                Ok(m) => {
                    let mut rep = Replica { name: "fresh".into(), melda: m, store: store.clone(), order_memo: HashMap::new(), root: None };
                    let mut t = tables.lock().unwrap_or_else(|e| e.into_inner());
                    let mut o = observe(&mut t, &mut rep, full);
                    o["open"] = json!("ok");
                    o
                }
                Err(e) => json!({"open": "err", "err": tok(&e.to_string())}),
            }
        }));
        match res {
            Ok(v) => v,
            Err(e) => json!({"open": "panic", "err": tok(&panic_msg(e))}),
        }
    }

    fn begin(&mut self, desc: &str) {
        let _ = self.tx.send(Msg::Begin(desc.to_string()));
    }

    fn emit(&mut self, op: &str, r: usize, args: Value, out: &Outcome, x: Value) {
        if out.kind == "panic" {
            self.dead = true;
        }
        let obs = if self.dead && out.kind == "panic" { json!({"projpanic": "skipped"}) } else { self.obs(r) };
        self.note_heads(&obs);
        self.i += 1;
        let ev = json!({"run": self.id, "i": self.i, "op": op, "r": rname(r), "a": args,
            "res": {"kind": out.kind, "msg": tok(&out.msg), "val": out.val}, "pool": self.pool,
            "obs": obs, "x": x});
        if !self.quiet {
            let _ = self.tx.send(Msg::Event(ev));
        }
    }

    fn note_heads(&mut self, obs: &Value) {
        if let Some(h) = obs.get("heads").and_then(|h| h.as_array()) {
            if !h.is_empty() && obs.get("staging") == Some(&json!(false)) {
                let hs: BTreeSet<String> = h.iter().filter_map(|x| x.as_str().map(|s| s.to_string())).collect();
                if !self.headsets.contains(&hs) {
                    self.headsets.push(hs);
                }
            }
        }
    }

    pub fn emit_reset(&mut self, label: &str) {
        let mut all = Map::new();
        for r in 0..self.reps.len() {
            let o = self.obs(r);
            self.note_heads(&o);
            all.insert(rname(r), o);
        }
        self.i += 1;
        let ev = json!({"run": self.id, "i": self.i, "op": "reset", "r": "", "a": {"label": label},
            "res": {"kind": "ok", "msg": "", "val": null}, "pool": self.pool, "all": all, "x": {}});
        if !self.quiet {
            let _ = self.tx.send(Msg::Event(ev));
        }
    }

    fn status_of(&self, r: usize) -> String {
        match &self.reps[r] {
            Some(rep) => format!("{:?}", crate::obs::status_map(rep)),
            None => String::new(),
        }
    }

    fn items_of(&self, r: usize) -> BTreeMap<String, Arc<Vec<u8>>> {
        self.stores[r].lock().unwrap().items()
    }

    fn writes_since(&self, r: usize, from: usize) -> Vec<Value> {
        let recs: Vec<crate::store::WriteRec> = self.stores[r].lock().unwrap().log[from..].to_vec();
        let mut t = self.tables.lock().unwrap_or_else(|e| e.into_inner());
        recs.iter()
            .map(|w| {
                let it = crate::obs::item_record(&mut t, &w.key, &w.bytes);
                json!({"seq": w.seq, "key": tok(&w.key), "sha": w.sha, "out": w.outcome, "tok": it})
            })
            .collect()
    }

    /// Crash snapshots: storage after the k-th stored write of the operation, k = 0..n.
    fn crash_snaps(&mut self, r: usize, pre: &BTreeMap<String, Arc<Vec<u8>>>, from: usize) -> Value {
        let writes: Vec<(String, Arc<Vec<u8>>)> = {
            let s = self.stores[r].lock().unwrap();
            s.log[from..].iter().filter(|w| w.outcome == "stored").map(|w| (w.key.clone(), w.bytes.clone())).collect()
        };
        let mut snaps = vec![];
        let mut cur = pre.clone();
        for k in 0..=writes.len() {
            if k > 0 {
                let (key, bytes) = &writes[k - 1];
                cur.insert(key.clone(), bytes.clone());
            }
            let o = self.fresh_obs(&cur);
            snaps.push(json!({"k": k, "n": writes.len(), "fresh": o}));
        }
        Value::from(snaps)
    }

    /// The process stops after the k-th stored write of the operation that just ran: storage is
    /// rolled back to that point and the replica is gone until it is reopened.
    fn crash_to(&mut self, r: usize, pre: &BTreeMap<String, Arc<Vec<u8>>>, from: usize, k: usize) {
        if !self.stores[r].lock().unwrap().is_own() {
            return;
        }
        let writes: Vec<(String, Arc<Vec<u8>>)> = {
            let s = self.stores[r].lock().unwrap();
            s.log[from..].iter().filter(|w| w.outcome == "stored").map(|w| (w.key.clone(), w.bytes.clone())).collect()
        };
        let mut cur = pre.clone();
        for (key, bytes) in writes.iter().take(k) {
            cur.insert(key.clone(), bytes.clone());
        }
        *self.stores[r].lock().unwrap().own_mut() = cur;
        self.reps[r] = None;
        self.i += 1;
        let ev = json!({"run": self.id, "i": self.i, "op": "Crash", "r": rname(r), "a": {"k": k},
            "res": {"kind": "ok", "msg": "", "val": ""}, "pool": self.pool, "obs": {"closed": true}, "x": {}});
        if !self.quiet {
            let _ = self.tx.send(Msg::Event(ev));
        }
    }

    pub fn exec(&mut self, op: &Value) {
        if self.dead {
            return;
        }
        let name = op["op"].as_str().unwrap_or("");
        let r = op.get("r").and_then(|v| v.as_u64()).unwrap_or(0) as usize % self.reps.len();
        if self.reps[r].is_none() && name != "reopen" {
            return;
        }
        self.begin(&format!("{} r{}", name, r));
        let pool = &self.tp.clone();
        match name {
            "update" | "edit" | "resubmit" => {
                let doc: Map<String, Value> = if name == "update" {
                    op["doc"].as_object().cloned().unwrap_or_default()
                } else if name == "resubmit" {
                    // the document this replica submitted last (e.g. redo of a discarded edit)
                    let back = op.get("back").and_then(|v| v.as_u64()).unwrap_or(0) as usize;
                    let hist = self.doc_hist.get(&r).cloned().unwrap_or_default();
                    if back > 0 {
                        // an older document of this replica (toggling between two documents before a commit)
                        if hist.len() <= back {
                            return;
                        }
                        hist[hist.len() - 1 - back].clone()
                    } else {
                        match self.last_doc.get(&r) {
                            Some(d) => d.clone(),
                            None => return,
                        }
                    }
                } else {
                    let mut p = Prng::new(op["seed"].as_u64().unwrap_or(0));
                    let cur = catch_unwind(AssertUnwindSafe(|| self.reps[r].as_ref().unwrap().melda.read(None)));
                    let arrays_only = op.get("arrays").and_then(|v| v.as_bool()).unwrap_or(false);
                    let akind = op.get("akind").and_then(|v| v.as_u64()).map(|k| k as usize);
                    match cur {
                        Ok(Ok(d)) if arrays_only => gen::mutate_arrays_kind(&mut p, &d, self.universe, akind),
                        Ok(Err(_)) if arrays_only => gen::mutate_arrays_kind(&mut p, &Map::new(), self.universe, akind),
                        Ok(Ok(d)) if !p.chance(1, 12) => gen::mutate_doc(&mut p, self.gencfg, &d, self.universe),
                        Ok(_) => gen::fresh_doc(&mut p, self.gencfg, self.universe),
                        Err(_) => {
                            self.dead = true;
                            return;
                        }
                    }
                };
                let mut doc = doc;
                if name == "edit" {
                    // the user occasionally switches to / from a custom root identifier
                    let mut p2 = Prng::new(op["seed"].as_u64().unwrap_or(0) ^ 0x5EED);
                    let cur = self.reps[r].as_ref().unwrap().root.clone();
                    let next = if p2.chance(1, 25) { if cur.is_some() { None } else { Some(crate::obs::CUSTOM_ROOT.to_string()) } } else { cur };
                    doc.remove("_id");
                    if let Some(id) = &next {
                        doc.insert("_id".to_string(), Value::from(id.clone()));
                    }
                }
                let newroot = doc.get("_id").and_then(|v| v.as_str()).map(|s| s.to_string());
                self.last_doc.insert(r, doc.clone());
                self.doc_hist.entry(r).or_default().push(doc.clone());
                let sub = docproj_json(&project_doc(&doc));
                let twice = op.get("twice").and_then(|v| v.as_bool()).unwrap_or(false);
                let m = &self.reps[r].as_ref().unwrap().melda;
                let d2 = doc.clone();
                let out = call(pool, || m.update(d2), |s| json!(tok(s)));
                if out.kind == "ok" {
                    self.reps[r].as_mut().unwrap().root = newroot.clone();
                }
                self.emit("Update", r, json!({"doc": Value::from(doc.clone()).to_string()}), &out, json!({"sub": sub}));
                if twice && !self.dead {
                    let m = &self.reps[r].as_ref().unwrap().melda;
                    let d2 = doc.clone();
                    let out = call(pool, || m.update(d2), |s| json!(tok(s)));
                    self.emit("Update", r, json!({"doc": Value::from(doc).to_string(), "again": true}), &out, json!({"sub": sub, "again": true}));
                }
            }
            "commit" => {
                self.commits += 1;
                let same = op.get("same_info").and_then(|v| v.as_bool()).unwrap_or(false);
                let info: Option<Map<String, Value>> = match op.get("info") {
                    Some(Value::Object(o)) => Some(o.clone()),
                    Some(Value::Null) => None,
                    // a retry with the metadata of this replica's previous attempt (what a caller that retries does)
                    _ if same && self.last_info.contains_key(&r) => self.last_info[&r].clone(),
                    _ => {
                        let mut p = Prng::new(op.get("seed").and_then(|v| v.as_u64()).unwrap_or(self.commits));
                        match p.below(16) {
                            0 => Some(Map::new()),      // empty metadata object
                            1 => None,                  // no metadata at all
                            _ => Some(gen::gen_info(&mut p, self.gencfg, &rname(r), self.id * 1000 + self.commits)),
                        }
                    }
                };
                self.last_info.insert(r, info.clone());
                let pre = self.items_of(r);
                let from = self.stores[r].lock().unwrap().log.len();
                if let Some(f) = op.get("fail").and_then(|f| f.as_array()) {
                    let mut s = self.stores[r].lock().unwrap();
                    s.fail_base = s.seq;
                    s.fail_at = f.iter().filter_map(|x| x.as_u64()).collect();
                }
                let m = &self.reps[r].as_ref().unwrap().melda;
                let i2 = info.clone();
                let mut committed = false;
                let out = call(pool, || m.commit(i2), |h| match h {
                    Some(hs) => {
                        committed = true;
                        Value::from(hs.iter().map(|d| tok(&d.to_string())).collect::<Vec<_>>())
                    }
                    None => json!([]),
                });
                self.stores[r].lock().unwrap().fail_at.clear();
                let writes = self.writes_since(r, from);
                if let Some(bn) = op.get("bn").and_then(|v| v.as_u64()) {
                    let keys: Vec<String> = self.stores[r].lock().unwrap().log[from..].iter().filter(|w| w.outcome != "failed").map(|w| w.key.clone()).collect();
                    self.written_by.insert(bn, keys);
                }
                let mut x = json!({"writes": writes, "failplan": op.get("fail").cloned().unwrap_or(json!([])), "committed": committed});
                if out.kind != "panic" {
                    let post = self.items_of(r);
                    x["fresh"] = self.fresh_obs(&post);
                    if op.get("crashenum").and_then(|v| v.as_bool()).unwrap_or(false) {
                        x["crash"] = self.crash_snaps(r, &pre, from);
                    }
                }
                let infosha = info.as_ref().map(|i| canon_sha(&Value::from(i.clone()))).unwrap_or_default();
                self.emit("Commit", r, json!({"info": infosha}), &out, x);
                if let Some(k) = op.get("crash_at").and_then(|v| v.as_u64()) {
                    self.crash_to(r, &pre, from, k as usize);
                }
            }
            "meld" => {
                let s = op["s"].as_u64().unwrap_or(0) as usize % self.reps.len();
                if s == r || self.reps[s].is_none() {
                    return;
                }
                let pre = self.items_of(r);
                let from = self.stores[r].lock().unwrap().log.len();
                if let Some(f) = op.get("fail").and_then(|f| f.as_array()) {
                    let mut st = self.stores[r].lock().unwrap();
                    st.fail_base = st.seq;
                    st.fail_at = f.iter().filter_map(|x| x.as_u64()).collect();
                }
                // `short_read: k`: the source backend returns only half of the bytes for its next k pack reads
                let sr = op.get("short_read").and_then(|v| v.as_u64()).unwrap_or(0) as usize;
                self.stores[s].lock().unwrap().short_reads = sr;
                let m = &self.reps[r].as_ref().unwrap().melda;
                let other = &self.reps[s].as_ref().unwrap().melda;
                let out = call(pool, || m.meld(other), |v| Value::from(v.iter().map(|k| tok(k)).collect::<Vec<_>>()));
                self.stores[s].lock().unwrap().short_reads = 0;
                self.stores[r].lock().unwrap().fail_at.clear();
                let writes = self.writes_since(r, from);
                let mut x = json!({"writes": writes, "src": rname(s)});
                if op.get("crashenum").and_then(|v| v.as_bool()).unwrap_or(false) && out.kind != "panic" {
                    x["crash"] = self.crash_snaps(r, &pre, from);
                }
                self.emit("Meld", r, json!({"s": rname(s)}), &out, x);
                if let Some(k) = op.get("crash_at").and_then(|v| v.as_u64()) {
                    self.crash_to(r, &pre, from, k as usize);
                }
            }
            "refresh" => {
                // `fail_read: k`: the next k reads of a pack fail during this refresh (transient backend error)
                let fr = op.get("fail_read").and_then(|v| v.as_u64()).unwrap_or(0) as usize;
                self.stores[r].lock().unwrap().fail_reads = fr;
                let m = &mut self.reps[r].as_mut().unwrap().melda;
                let out = call(pool, || m.refresh(), |_| Value::Null);
                self.stores[r].lock().unwrap().fail_reads = 0;
                let mut x = json!({});
                if out.kind == "ok" {
                    let post = self.items_of(r);
                    x["fresh"] = self.fresh_obs(&post);
                }
                self.emit("Refresh", r, json!({"fail_read": fr}), &out, x);
            }
            "reload" => {
                let m = &self.reps[r].as_ref().unwrap().melda;
                let out = call(pool, || m.reload(), |_| Value::Null);
                self.emit("Reload", r, json!({}), &out, json!({}));
            }
            "reload_until" => {
                if self.headsets.is_empty() {
                    return;
                }
                let k = op["hs"].as_u64().unwrap_or(0) as usize % self.headsets.len();
                let hs = self.headsets[k].clone();
                let anchors: BTreeSet<DeltaId> = hs.iter().filter_map(|h| DeltaId::from(h).ok()).collect();
                let m = &self.reps[r].as_ref().unwrap().melda;
                let out = call(pool, || m.reload_until(&anchors), |_| Value::Null);
                self.emit("ReloadUntil", r, json!({"heads": hs.iter().cloned().collect::<Vec<_>>()}), &out, json!({}));
            }
            "resolve" | "resolve_any" | "resolve_array" => {
                let m = &self.reps[r].as_ref().unwrap().melda;
                let objs: Vec<String> = if name == "resolve" {
                    m.in_conflict().into_iter().collect()
                } else if name == "resolve_array" {
                    m.in_conflict().into_iter().filter(|o| o.starts_with('^')).collect()
                } else {
                    m.get_all_objects().into_iter().collect()
                };
                if objs.is_empty() {
                    return;
                }
                let o = objs[op["o"].as_u64().unwrap_or(0) as usize % objs.len()].clone();
                let mut leaves: Vec<String> = vec![];
                if name != "resolve_any" {
                    if let Ok(w) = m.get_winner(&o) {
                        leaves.push(w);
                    }
                    if let Ok(c) = m.get_conflicting(&o) {
                        leaves.extend(c);
                    }
                } else if let Some(t) = m.verif_tree(&o) {
                    leaves.extend(t.into_iter().map(|(r, _, _)| r));
                }
                if leaves.is_empty() {
                    return;
                }
                leaves.sort();
                let leaf = leaves[op["leaf"].as_u64().unwrap_or(0) as usize % leaves.len()].clone();
                let out = call(pool, || m.resolve_as(&o, &leaf), |w| json!(w));
                self.emit("Resolve", r, json!({"o": tok(&o), "leaf": leaf}), &out, json!({}));
            }
            "unstage" => {
                let m = &mut self.reps[r].as_mut().unwrap().melda;
                let out = call(pool, || m.unstage(), |_| Value::Null);
                self.emit("Unstage", r, json!({}), &out, json!({}));
            }
            "export" => {
                let m = &self.reps[r].as_ref().unwrap().melda;
                let mut exported: Option<Value> = None;
                let out = call(pool, || m.stage(), |s| {
                    exported = s.clone();
                    json!(s.is_some())
                });
                self.last_export.insert(r, exported);
                self.emit("Export", r, json!({}), &out, json!({}));
            }
            "replay" => {
                let st = self.last_export.get(&r).cloned().unwrap_or(None);
                let m = &self.reps[r].as_ref().unwrap().melda;
                let out = call(pool, || m.replay_stage(&st), |_| Value::Null);
                self.emit("Replay", r, json!({"some": st.is_some()}), &out, json!({}));
            }
            "export_replay" => {
                for sub in ["export", "unstage", "replay"] {
                    self.exec(&json!({"op": sub, "r": r}));
                }
            }
            "obj_create" | "obj_update" | "obj_delete" | "obj_remove" => {
                // the object-level API used directly (objects outside the document tree)
                let ids = ["raw-a", "raw-b", "raw c", "raw\u{e9}"];
                let id = ids[op["o"].as_u64().unwrap_or(0) as usize % ids.len()].to_string();
                let mut p = Prng::new(op["seed"].as_u64().unwrap_or(0));
                let val = match op.get("val").and_then(|v| v.as_u64()) {
                    Some(v) => json!({"v": v}),
                    None => json!({"n": p.below(3), "s": gen::gen_string(&mut p, self.gencfg)}),
                };
                let obj = val.as_object().unwrap().clone();
                let m = &self.reps[r].as_ref().unwrap().melda;
                let o2 = obj.clone();
                let out = match name {
                    "obj_create" => call(pool, || m.create_object(&id, o2), |v| json!(v.clone().unwrap_or_default())),
                    "obj_update" => call(pool, || m.update_object(&id, o2), |v| json!(v.clone().unwrap_or_default())),
                    "obj_delete" => call(pool, || m.delete_object(&id), |v| json!(v.clone().unwrap_or_default())),
                    _ => call(pool, || m.remove_object(&id), |v| json!(v.clone().unwrap_or_default())),
                };
                let opn = match name { "obj_create" => "ObjCreate", "obj_update" => "ObjUpdate", "obj_delete" => "ObjDelete", _ => "ObjRemove" };
                self.emit(opn, r, json!({"o": tok(&id), "vsha": canon_sha(&Value::from(obj))}), &out, json!({}));
            }
            "foreign" => {
                // the application stores an item of its own next to blocks and packs (meld forwards such items)
                let key = format!("notes-{}-{}.txt", rname(r), op["n"].as_u64().unwrap_or(0) % 3);
                let bytes = format!("foreign item {} of {}", op["n"].as_u64().unwrap_or(0), rname(r)).into_bytes();
                self.stores[r].lock().unwrap().insert_item(&key, Arc::new(bytes));
                let out = Outcome { kind: "ok", msg: String::new(), val: Value::Null };
                self.emit("Foreign", r, json!({"key": tok(&key)}), &out, json!({}));
            }
            "snapshot" => {
                let m = &self.reps[r].as_ref().unwrap().melda;
                let out = call(pool, || m.stage_full_snapshot(), |_| Value::Null);
                self.emit("Snapshot", r, json!({}), &out, json!({}));
            }
            "copy" => {
                // file-level copy of one item (any file synchroniser)
                let s = op["s"].as_u64().unwrap_or(0) as usize % self.reps.len();
                if s == r {
                    return;
                }
                let src = self.items_of(s);
                let dst = self.items_of(r);
                let cand: Vec<&String> = src.keys().filter(|k| !dst.contains_key(*k)).collect();
                if cand.is_empty() {
                    return;
                }
                let k = cand[op["n"].as_u64().unwrap_or(0) as usize % cand.len()].clone();
                let bytes = src[&k].clone();
                self.stores[r].lock().unwrap().insert_item(&k, bytes);
                let out = Outcome { kind: "ok", msg: String::new(), val: Value::Null };
                self.emit("Copy", r, json!({"s": rname(s), "key": tok(&k)}), &out, json!({}));
            }
            "crash" => {
                let pre = self.items_of(r);
                let from = self.stores[r].lock().unwrap().log.len();
                self.crash_to(r, &pre, from, 0);
            }
            "reopen" => {
                self.reps[r] = None;
                let store = self.stores[r].clone();
                let mut opened: Option<Melda> = None;
                let out = call(pool, || Melda::new(new_adapter(&store)), |_| Value::Null);
                if out.kind == "ok" {
                    // open again outside `call` to obtain the value (Melda::new is deterministic on storage)
                    opened = Melda::new(new_adapter(&store)).ok();
                }
                match opened {
                    Some(m) => {
                        self.reps[r] = Some(Replica { name: rname(r), melda: m, store, order_memo: HashMap::new(), root: None });
                        self.emit("Open", r, json!({}), &out, json!({}));
                    }
                    None => {
                        // the replica stays closed; record the failed open without an observation
                        self.i += 1;
                        let ev = json!({"run": self.id, "i": self.i, "op": "OpenFailed", "r": rname(r), "a": {},
                            "res": {"kind": out.kind, "msg": tok(&out.msg), "val": null}, "pool": self.pool, "obs": {"closed": true}, "x": {}});
                        if out.kind == "panic" {
                            self.dead = true;
                        }
                        let _ = self.tx.send(Msg::Event(ev));
                    }
                }
            }
            "sync" => {
                // exchange in both directions until neither side learns anything new: no item is
                // written and no replica's set of known/applied blocks changes during a full round
                let s = op["s"].as_u64().unwrap_or(0) as usize % self.reps.len();
                if s == r || self.reps[s].is_none() {
                    return;
                }
                let mut rounds = 0;
                let mut converged = false;
                for _round in 0..6 {
                    rounds += 1;
                    let before = (self.items_of(r).len(), self.items_of(s).len(), self.status_of(r), self.status_of(s));
                    self.exec(&json!({"op": "meld", "r": r, "s": s}));
                    self.exec(&json!({"op": "refresh", "r": r}));
                    self.exec(&json!({"op": "meld", "r": s, "s": r}));
                    self.exec(&json!({"op": "refresh", "r": s}));
                    if self.dead {
                        return;
                    }
                    let after = (self.items_of(r).len(), self.items_of(s).len(), self.status_of(r), self.status_of(s));
                    if before == after {
                        converged = true;
                        break;
                    }
                }
                let out = Outcome { kind: "ok", msg: String::new(), val: Value::Null };
                self.emit("Synced", r, json!({"s": rname(s)}), &out, json!({"peer": rname(s), "rounds": rounds, "converged": converged}));
            }
            "copy_item" | "damage_item" => {
                // an item addressed by the model: the block or pack written by commit number `bn`
                let bn = op["bn"].as_u64().unwrap_or(0);
                let kind = op["kind"].as_str().unwrap_or("delta");
                let ext = if kind == "pack" { ".pack" } else { ".delta" };
                let key = match self.written_by.get(&bn).and_then(|ks| ks.iter().find(|k| k.ends_with(ext))) {
                    Some(k) => k.clone(),
                    None => return,
                };
                if name == "copy_item" {
                    let s = op["s"].as_u64().unwrap_or(0) as usize % self.reps.len();
                    let src = self.items_of(s);
                    if s == r || !src.contains_key(&key) || self.items_of(r).contains_key(&key) {
                        return;
                    }
                    self.stores[r].lock().unwrap().insert_item(&key, src[&key].clone());
                    let out = Outcome { kind: "ok", msg: String::new(), val: Value::Null };
                    self.emit("Copy", r, json!({"s": rname(s), "key": tok(&key)}), &out, json!({}));
                } else {
                    let items = self.items_of(r);
                    let keys: Vec<String> = items.keys().cloned().collect();
                    let n = match keys.iter().position(|k| *k == key) {
                        Some(n) => n,
                        None => return,
                    };
                    let how = if op["how"].as_str() == Some("delete") { "delete" } else { "flip" };
                    self.damage(r, &json!({"kind": how, "n": n, "pos": 77}));
                }
            }
            "resolve_by" => {
                // a leaf addressed by the model: by index and value
                let o = op["o"].as_str().unwrap_or("").to_string();
                let m = &self.reps[r].as_ref().unwrap().melda;
                let mut leaves: Vec<String> = vec![];
                if let Ok(w) = m.get_winner(&o) {
                    leaves.push(w);
                }
                if let Ok(c) = m.get_conflicting(&o) {
                    leaves.extend(c);
                }
                let idx = op["idx"].as_u64().unwrap_or(0);
                let want_del = op["k"].as_str() == Some("d");
                let mut pick: Vec<String> = vec![];
                for l in &leaves {
                    let pr = match crate::obs::parse_rev(l) {
                        Some(p) => p,
                        None => continue,
                    };
                    if pr.0 as u64 != idx {
                        continue;
                    }
                    let is_del = pr.1 == "d";
                    if want_del != is_del {
                        continue;
                    }
                    if !want_del {
                        if let Some(v) = op.get("val") {
                            match m.get_value(&o, Some(l)) {
                                Ok(obj) if obj.get("v") == Some(v) => {}
                                Ok(obj) if obj.get("v").is_none() => {}
                                _ => continue,
                            }
                        }
                    }
                    pick.push(l.clone());
                }
                if leaves.len() < 2 || pick.is_empty() {
                    return;
                }
                pick.sort();
                let leaf = pick[0].clone();
                let out = call(pool, || m.resolve_as(&o, &leaf), |w| json!(w));
                self.emit("Resolve", r, json!({"o": tok(&o), "leaf": leaf}), &out, json!({}));
            }
            "reload_until_set" => {
                let mut hs: BTreeSet<String> = BTreeSet::new();
                for bn in op["bns"].as_array().cloned().unwrap_or_default() {
                    if let Some(k) = self.written_by.get(&bn.as_u64().unwrap_or(0)).and_then(|ks| ks.iter().find(|k| k.ends_with(".delta"))) {
                        hs.insert(k.trim_end_matches(".delta").to_string());
                    }
                }
                if hs.is_empty() {
                    return;
                }
                let anchors: BTreeSet<DeltaId> = hs.iter().filter_map(|h| DeltaId::from(h).ok()).collect();
                let m = &self.reps[r].as_ref().unwrap().melda;
                let out = call(pool, || m.reload_until(&anchors), |_| Value::Null);
                self.emit("ReloadUntil", r, json!({"heads": hs.iter().map(|h| tok(h)).collect::<Vec<_>>()}), &out, json!({}));
            }
            "deliver" => {
                // deliver the items of `s` that `r` lacks one file at a time, in the k-th permutation
                // (or a seeded shuffle), with a refresh after each delivered file
                let s = op["s"].as_u64().unwrap_or(0) as usize % self.reps.len();
                if s == r {
                    return;
                }
                let src = self.items_of(s);
                let dst = self.items_of(r);
                let mut keys: Vec<String> = src.keys().filter(|k| !dst.contains_key(*k)).cloned().collect();
                if let Some(k) = op.get("perm").and_then(|v| v.as_u64()) {
                    // k-th permutation in the factorial number system
                    let mut pool = keys.clone();
                    let mut k = k;
                    keys.clear();
                    while !pool.is_empty() {
                        let n = pool.len() as u64;
                        let i = (k % n) as usize;
                        k /= n;
                        keys.push(pool.remove(i));
                    }
                } else {
                    let mut p = Prng::new(op.get("seed").and_then(|v| v.as_u64()).unwrap_or(1));
                    p.shuffle(&mut keys);
                }
                let limit = op.get("limit").and_then(|v| v.as_u64()).unwrap_or(u64::MAX) as usize;
                for k in keys.into_iter().take(limit) {
                    let bytes = src[&k].clone();
                    self.stores[r].lock().unwrap().insert_item(&k, bytes);
                    let out = Outcome { kind: "ok", msg: String::new(), val: Value::Null };
                    self.emit("Copy", r, json!({"s": rname(s), "key": tok(&k)}), &out, json!({}));
                    if op.get("refresh_each").and_then(|v| v.as_bool()).unwrap_or(true) {
                        if k.ends_with(".pack") && op.get("flaky").and_then(|v| v.as_bool()).unwrap_or(false) {
                            // the first read of the newly arrived pack fails; the refresh is then repeated
                            self.exec(&json!({"op": "refresh", "r": r, "fail_read": 1}));
                        }
                        self.exec(&json!({"op": "refresh", "r": r}));
                    }
                    if self.dead {
                        return;
                    }
                }
            }
            "damage" => self.damage(r, op),
            _ => {}
        }
    }

    /// Driver-level faults on stored items (C10).
    fn damage(&mut self, r: usize, op: &Value) {
        if !self.stores[r].lock().unwrap().is_own() {
            return;
        }
        let items = self.items_of(r);
        let keys: Vec<String> = items.keys().cloned().collect();
        let kind = op["kind"].as_str().unwrap_or("flip");
        let n = op["n"].as_u64().unwrap_or(0) as usize;
        let pos = op["pos"].as_u64().unwrap_or(0) as usize;
        let mut desc = json!({"kind": kind});
        {
            let mut st = self.stores[r].lock().unwrap();
            let m = st.own_mut();
            match kind {
                "inject" => {
                    let key = op["key"].as_str().unwrap_or("zz.pack").to_string();
                    let bytes = op["bytes"].as_str().unwrap_or("junk").as_bytes().to_vec();
                    desc["key"] = json!(tok(&key));
                    m.entry(key).or_insert_with(|| Arc::new(bytes));
                }
                _ if keys.is_empty() => return,
                "delete" => {
                    let k = &keys[n % keys.len()];
                    desc["key"] = json!(tok(k));
                    m.remove(k);
                }
                "empty" => {
                    let k = &keys[n % keys.len()];
                    desc["key"] = json!(tok(k));
                    m.insert(k.clone(), Arc::new(vec![]));
                }
                "flipstr" => {
                    // flip the lowest bit of an alphanumeric byte inside a JSON string literal: the item
                    // usually stays valid JSON with altered content
                    let k = &keys[n % keys.len()];
                    let mut b = items[k].as_ref().clone();
                    // candidates: alphanumeric bytes of string literals, preferring literals that are not
                    // digests / revision identifiers (flipping those only makes the item incomplete)
                    let mut cand = vec![];
                    let mut hexcand = vec![];
                    let mut cur: Vec<usize> = vec![];
                    let mut in_str = false;
                    let mut esc = false;
                    for (i, c) in b.iter().enumerate() {
                        if in_str {
                            if esc {
                                esc = false;
                            } else if *c == b'\\' {
                                esc = true;
                            } else if *c == b'"' {
                                in_str = false;
                                let digestlike = cur.len() >= 32 && cur.iter().filter(|j| b[**j].is_ascii_hexdigit()).count() * 10 >= cur.len() * 9;
                                if digestlike { hexcand.extend(cur.drain(..)); } else { cand.extend(cur.drain(..)); }
                            } else if c.is_ascii_alphanumeric() {
                                cur.push(i);
                            }
                        } else if *c == b'"' {
                            in_str = true;
                            cur.clear();
                        }
                    }
                    if cand.is_empty() {
                        cand = hexcand;
                    }
                    if cand.is_empty() {
                        return;
                    }
                    let i = cand[pos % cand.len()];
                    b[i] ^= 1;
                    desc["key"] = json!(tok(k));
                    desc["bit"] = json!(i * 8);
                    m.insert(k.clone(), Arc::new(b));
                }
                "trunc" => {
                    let k = &keys[n % keys.len()];
                    let b = items[k].clone();
                    let len = if b.is_empty() { 0 } else { pos % b.len() };
                    desc["key"] = json!(tok(k));
                    desc["len"] = json!(len);
                    m.insert(k.clone(), Arc::new(b[..len].to_vec()));
                }
                _ => {
                    let k = &keys[n % keys.len()];
                    let mut b = items[k].as_ref().clone();
                    if b.is_empty() {
                        return;
                    }
                    let bit = pos % (b.len() * 8);
                    b[bit / 8] ^= 1 << (bit % 8);
                    desc["key"] = json!(tok(k));
                    desc["bit"] = json!(bit);
                    m.insert(k.clone(), Arc::new(b));
                }
            }
        }
        let out = Outcome { kind: "ok", msg: String::new(), val: Value::Null };
        self.emit("Damage", r, desc, &out, json!({}));
    }
}

// ------------------------------------------------------------------ running schedules

pub struct RunResult {
    pub id: u64,
    pub events: Vec<Value>,
    pub tables: Arc<Mutex<Tables>>,
    pub timeout: Option<String>,
    pub wall_ms: u128,
}

/// Executes one run specification under the watchdog.
pub fn run_spec(spec: Value, timeout: Duration) -> RunResult {
    let id = spec["run"].as_u64().unwrap_or(0);
    let (tx, rx) = channel::<Msg>();
    let tables = Arc::new(Mutex::new(Tables::default()));
    let t2 = tables.clone();
    let spec2 = spec.clone();
    let t0 = Instant::now();
    let pool = spec["pool"].as_u64().unwrap_or(4) as usize;
    std::thread::Builder::new()
        .stack_size(64 << 20)
        .spawn(move || {
            let nrep = spec2["replicas"].as_u64().unwrap_or(2) as usize;
            let mut run = Run::new(id, nrep, pool, tx.clone(), t2, &spec2);
            run.emit_reset(spec2["label"].as_str().unwrap_or(""));
            let ops = spec2["ops"].as_array().cloned().unwrap_or_default();
            for op in &ops {
                run.exec(op);
                if run.dead {
                    break;
                }
            }
            if let Some(alpha) = spec2.get("tryall").and_then(|a| a.as_array()) {
                if !run.dead {
                    for extra in alpha {
                        // rebuild the state silently, then log the one extra operation
                        let (tx2, _rx2) = channel::<Msg>();
                        let mut sub = Run::new(id, nrep, pool, tx2, run.tables.clone(), &spec2);
                        sub.quiet = true;
                        for op in &ops {
                            sub.exec(op);
                        }
                        if sub.dead {
                            continue;
                        }
                        sub.quiet = false;
                        sub.tx = tx.clone();
                        sub.i = 0;
                        sub.emit_reset("tryall");
                        sub.exec(extra);
                    }
                }
            }
            if let (Some(_), Some(t)) = (spec2.get("backend").and_then(|v| v.as_str()), spec2.get("tmpdir").and_then(|v| v.as_str())) {
                for r in 0..nrep {
                    let _ = std::fs::remove_dir_all(format!("{}/run{}_r{}", t, id, r));
                }
            }
            if let Ok(dir) = std::env::var("MVH_DUMP") {
                for (r, st) in run.stores.iter().enumerate() {
                    let d = format!("{}/run{}_r{}", dir, id, r);
                    let _ = std::fs::create_dir_all(&d);
                    for (k, b) in st.lock().unwrap().items() {
                        let _ = std::fs::write(format!("{}/{}", d, k), b.as_slice());
                    }
                }
            }
            let _ = tx.send(Msg::Done);
            // keep `run` alive until here; replicas are dropped with it
        })
        .unwrap();
    let mut events = vec![];
    let mut last_begin = String::new();
    let mut timed_out = None;
    loop {
        match rx.recv_timeout(timeout) {
            Ok(Msg::Begin(d)) => last_begin = d,
            Ok(Msg::Event(e)) => events.push(e),
            Ok(Msg::Done) => break,
            Err(RecvTimeoutError::Timeout) => {
                timed_out = Some(last_begin.clone());
                break;
            }
            Err(RecvTimeoutError::Disconnected) => break,
        }
    }
    if let Some(d) = &timed_out {
        let i = events.len() as u64 + 1;
        let mut parts = d.split(' ');
        let opn = parts.next().unwrap_or("");
        let rn = parts.next().unwrap_or("r0");
        events.push(json!({"run": id, "i": i, "op": "Timeout", "r": rn, "a": {"of": opn},
            "res": {"kind": "timeout", "msg": tok(d), "val": null}, "pool": pool, "obs": {"projpanic": "timeout"}, "x": {}}));
    }
    RunResult { id, events, tables, timeout: timed_out, wall_ms: t0.elapsed().as_millis() }
}

/// Seeded random history (the operation mix of C01's quantifier plus faults on request).
pub fn random_spec(run: u64, seed: u64, profile: &str) -> Value {
    let mut p = Prng::new(seed ^ run.wrapping_mul(0x9E3779B97F4A7C15));
    let nrep = if profile == "single" { 1 } else { 2 + p.below(2) };
    let len = 6 + p.below(30);
    let mut ops = vec![];
    for _ in 0..len {
        let r = p.below(nrep);
        let s = (r + 1 + p.below(nrep.max(2) - 1)) % nrep.max(1);
        let op = match p.below(100) {
            0..=34 => json!({"op": "edit", "r": r, "seed": p.next(), "twice": p.chance(1, 10)}),
            35..=54 => json!({"op": "commit", "r": r, "seed": p.next(), "crashenum": profile == "crash" && p.chance(1, 2)}),
            55..=64 if nrep > 1 => json!({"op": "sync", "r": r, "s": s}),
            65..=69 if nrep > 1 => json!({"op": "meld", "r": r, "s": s, "crashenum": profile == "crash"}),
            70..=74 => json!({"op": "refresh", "r": r}),
            75..=79 => json!({"op": "resolve", "r": r, "o": p.below(8), "leaf": p.below(4)}),
            80..=82 => {
                ops.push(json!({"op": "unstage", "r": r}));
                if p.chance(1, 2) {
                    // redo the discarded edit, then usually commit it
                    ops.push(json!({"op": "resubmit", "r": r}));
                    if p.chance(2, 3) {
                        ops.push(json!({"op": "commit", "r": r, "seed": p.next()}));
                        if p.chance(1, 2) {
                            ops.push(json!({"op": "reopen", "r": r}));
                        }
                    }
                }
                json!({"op": "refresh", "r": r})
            }
            83 => json!({"op": "export_replay", "r": r}),
            84..=85 => {
                let chain = p.chance(1, 2);
                if chain {
                    // a chain of two different staged edits of the same objects, exported and replayed, committed
                    ops.push(json!({"op": "commit", "r": r, "seed": p.next()}));
                    ops.push(json!({"op": "edit", "r": r, "seed": p.next()}));
                    ops.push(json!({"op": "edit", "r": r, "seed": p.next()}));
                } else {
                    // toggle between two documents before the commit: several staged revisions with the same digest
                    ops.push(json!({"op": "edit", "r": r, "seed": p.next()}));
                    ops.push(json!({"op": "resubmit", "r": r, "back": 1}));
                    ops.push(json!({"op": "resubmit", "r": r, "back": 1}));
                    if p.chance(1, 2) {
                        ops.push(json!({"op": "resubmit", "r": r, "back": 1}));
                    }
                }
                ops.push(json!({"op": "export_replay", "r": r}));
                if chain || p.chance(1, 2) {
                    ops.push(json!({"op": "commit", "r": r, "seed": p.next()}));
                }
                // an idle refresh / reload afterwards must not change what is shown
                if p.chance(1, 2) { json!({"op": "refresh", "r": r}) } else { json!({"op": "reload", "r": r}) }
            }
            86..=88 => json!({"op": "reload_until", "r": r, "hs": p.below(16)}),
            89..=90 => json!({"op": "reload", "r": r}),
            91 => json!({"op": "snapshot", "r": r}),
            92 => json!({"op": "foreign", "r": r, "n": p.below(6)}),
            93..=95 => json!({"op": "reopen", "r": r}),
            96..=97 if nrep > 1 && profile != "multi" => json!({"op": "copy", "r": r, "s": s, "n": p.below(8)}),
            _ => json!({"op": "commit", "r": r, "seed": p.next()}),
        };
        ops.push(op);
    }
    if profile == "cache" {
        // Object bodies that a replica holds only in memory (P12 / P13): a writer whose commit re-uses an
        // object of a foreign pack it merely indexed (so its block names a pack without that object), and a
        // receiver that has the same body in its object cache from a discarded edit or from a pack that
        // was deleted later, and gets the writer's block and pack file by file.
        ops.clear();
        let v = 1 + p.below(3);
        let elem = |k: usize, n: usize| json!({"_id": format!("e{}", k), "v": n});
        let doc = |els: Vec<Value>| json!({"v": v, "a\u{266d}": els});
        let a0: Vec<Value> = (0..p.below(3)).map(|k| elem(k, 1)).collect();
        let mut b0 = a0.clone();
        b0.push(elem(3 + p.below(2), 1 + p.below(2)));
        if p.chance(1, 3) && !b0.is_empty() {
            b0.remove(0);
        }
        ops.push(json!({"op": "update", "r": 1, "doc": doc(a0.clone())}));
        ops.push(json!({"op": "commit", "r": 1, "bn": 1}));
        ops.push(json!({"op": "copy_item", "r": 0, "kind": "pack", "bn": 1, "s": 1}));
        if p.chance(1, 4) {
            ops.push(json!({"op": "copy_item", "r": 0, "kind": "delta", "bn": 1, "s": 1}));
        }
        ops.push(json!({"op": "refresh", "r": 0}));
        ops.push(json!({"op": "update", "r": 0, "doc": doc(b0.clone())}));
        ops.push(json!({"op": "commit", "r": 0, "bn": 2}));
        let damage = p.chance(1, 3);
        if damage {
            // the writer itself loses the foreign pack and reloads
            ops.push(json!({"op": "damage_item", "r": 0, "kind": "pack", "bn": 1, "how": "delete"}));
            ops.push(json!({"op": "reload", "r": 0}));
            ops.push(json!({"op": "update", "r": 0, "doc": doc(if p.chance(1, 2) { a0.clone() } else { b0.clone() })}));
            ops.push(json!({"op": "unstage", "r": 0}));
            ops.push(json!({"op": "reload", "r": 0}));
        }
        if p.chance(1, 4) {
            // the receiver stores the very same contents in a pack of its own and then gets the writer's block
            // without the pack that block names: every object is readable, the named pack is still missing
            ops.push(json!({"op": "update", "r": 2, "doc": doc(b0.clone())}));
            ops.push(json!({"op": "commit", "r": 2, "bn": 3}));
            ops.push(json!({"op": "copy_item", "r": 2, "kind": "delta", "bn": 2, "s": 0}));
            ops.push(json!({"op": "refresh", "r": 2}));
            if p.chance(1, 2) {
                ops.push(json!({"op": "reload", "r": 2}));
            }
        }
        ops.push(json!({"op": "update", "r": 2, "doc": doc(if p.chance(1, 2) { a0.clone() } else { b0.clone() })}));
        match p.below(3) {
            0 => {}
            1 => ops.push(json!({"op": "commit", "r": 2, "seed": p.next(), "fail": [1]})),
            _ => ops.push(json!({"op": "export_replay", "r": 2})),
        }
        ops.push(json!({"op": "unstage", "r": 2}));
        let first = if p.chance(1, 2) { "delta" } else { "pack" };
        let second = if first == "delta" { "pack" } else { "delta" };
        ops.push(json!({"op": "copy_item", "r": 2, "kind": first, "bn": 2, "s": 0}));
        if p.chance(1, 2) {
            ops.push(json!({"op": "refresh", "r": 2}));
        }
        ops.push(json!({"op": "copy_item", "r": 2, "kind": second, "bn": 2, "s": 0}));
        ops.push(json!({"op": "refresh", "r": 2}));
        if p.chance(1, 2) {
            ops.push(json!({"op": "reload", "r": 2}));
        }
        if p.chance(1, 2) {
            ops.push(json!({"op": "copy_item", "r": 2, "kind": "pack", "bn": 1, "s": 1}));
            ops.push(json!({"op": "refresh", "r": 2}));
        }
        if !damage {
            ops.push(json!({"op": "sync", "r": 2, "s": 0}));
            ops.push(json!({"op": "sync", "r": 2, "s": 1}));
        }
        return json!({"run": run, "replicas": 3, "pool": *p.pick(&[1usize, 2, 4, 16]), "ops": ops, "label": format!("random:{}:{}", profile, seed),
            "floats": false, "nasty": false, "universe": 6, "list_seed": Value::Null, "damage": damage});
    }
    if profile == "arrays" {
        // concurrent array edits over a tiny identifier universe, frequent synchronisation
        ops.clear();
        let nrep = 2 + p.below(2);
        ops.push(json!({"op": "edit", "r": 0, "seed": p.next(), "arrays": true}));
        ops.push(json!({"op": "edit", "r": 0, "seed": p.next(), "arrays": true}));
        ops.push(json!({"op": "commit", "r": 0, "seed": p.next()}));
        for r in 1..nrep {
            ops.push(json!({"op": "sync", "r": r, "s": 0}));
        }
        if p.chance(1, 2) {
            // from a common version: every replica inserts its own element, then all make the same positional
            // edit -- leaves with the same index and the same edit script on different parents
            let ins = 2 + p.below(2);
            let akind = *p.pick(&[0usize, 1, 4]);
            let seed = p.next();
            for r in 0..nrep {
                ops.push(json!({"op": "edit", "r": r, "seed": p.next(), "arrays": true, "akind": ins}));
                if p.chance(1, 2) {
                    ops.push(json!({"op": "commit", "r": r, "seed": p.next()}));
                }
                ops.push(json!({"op": "edit", "r": r, "seed": seed, "arrays": true, "akind": akind}));
                ops.push(json!({"op": "commit", "r": r, "seed": p.next()}));
            }
            for r in 1..nrep {
                ops.push(json!({"op": "sync", "r": 0, "s": r}));
            }
            if p.chance(1, 2) {
                ops.push(json!({"op": "commit", "r": p.below(nrep), "seed": p.next()}));
                for r in 1..nrep {
                    ops.push(json!({"op": "sync", "r": 0, "s": r}));
                }
            }
        }
        let rounds = 2 + p.below(4);
        for _ in 0..rounds {
            for r in 0..nrep {
                let k = 1 + p.below(3);
                for _ in 0..k {
                    ops.push(json!({"op": "edit", "r": r, "seed": p.next(), "arrays": true}));
                    if p.chance(1, 2) {
                        ops.push(json!({"op": "commit", "r": r, "seed": p.next()}));
                    }
                }
                ops.push(json!({"op": "commit", "r": r, "seed": p.next()}));
            }
            match p.below(3) {
                0 => {
                    // a race: every replica inserts a fresh element at the same end of the same array
                    let akind = 2 + p.below(2);
                    for r in 0..nrep {
                        ops.push(json!({"op": "edit", "r": r, "seed": p.next(), "arrays": true, "akind": akind}));
                        ops.push(json!({"op": "commit", "r": r, "seed": p.next()}));
                    }
                }
                1 => {
                    // twins: every replica makes the same positional edit (same edit script) on its own version
                    let akind = *p.pick(&[0usize, 1, 4]);
                    let seed = p.next();
                    for r in 0..nrep {
                        ops.push(json!({"op": "edit", "r": r, "seed": seed, "arrays": true, "akind": akind}));
                        ops.push(json!({"op": "commit", "r": r, "seed": p.next()}));
                    }
                }
                _ => {}
            }
            for r in 0..nrep {
                for s2 in 0..nrep {
                    if r < s2 && p.chance(2, 3) {
                        ops.push(json!({"op": "sync", "r": r, "s": s2}));
                    }
                }
            }
            if p.chance(1, 4) {
                // maintenance while the conflict is still unresolved
                ops.push(json!({"op": "snapshot", "r": p.below(nrep)}));
            }
            if p.chance(1, 3) {
                let r = p.below(nrep);
                ops.push(json!({"op": "resolve", "r": r, "o": p.below(8), "leaf": p.below(4)}));
            }
            if p.chance(1, 2) {
                let r = p.below(nrep);
                ops.push(json!({"op": "resolve_array", "r": r, "o": p.below(4), "leaf": p.below(4)}));
                if p.chance(1, 2) {
                    ops.push(json!({"op": "commit", "r": r, "seed": p.next()}));
                }
            }
            if p.chance(1, 4) {
                let r = p.below(nrep);
                ops.push(json!({"op": "snapshot", "r": r}));
                ops.push(json!({"op": "commit", "r": r, "seed": p.next()}));
            }
            if p.chance(1, 4) {
                ops.push(json!({"op": "reopen", "r": p.below(nrep)}));
            }
        }
        for _ in 0..2 {
            for r in 0..nrep {
                ops.push(json!({"op": "commit", "r": r, "seed": p.next()}));
            }
            for r in 0..nrep {
                for s2 in 0..nrep {
                    if r < s2 {
                        ops.push(json!({"op": "sync", "r": r, "s": s2}));
                    }
                }
            }
        }
        return json!({"run": run, "replicas": nrep, "pool": *p.pick(&[1usize, 2, 4, 16]), "ops": ops, "label": format!("random:{}:{}", profile, seed),
            "floats": false, "nasty": false, "universe": 5, "list_seed": if p.chance(1, 2) { json!(p.next()) } else { Value::Null }});
    }
    if profile == "objapi" {
        // create_object / update_object / delete_object / remove_object used directly, mixed with documents
        ops.clear();
        let nrep = 2;
        let n = 10 + p.below(25);
        for _ in 0..n {
            let r = p.below(nrep);
            let op = match p.below(100) {
                0..=19 => json!({"op": "obj_create", "r": r, "o": p.below(4), "seed": p.next() % 5}),
                20..=44 => json!({"op": "obj_update", "r": r, "o": p.below(4), "seed": p.next() % 5}),
                45..=54 => json!({"op": "obj_delete", "r": r, "o": p.below(4)}),
                55..=64 => json!({"op": "obj_remove", "r": r, "o": p.below(4)}),
                65..=79 => json!({"op": "commit", "r": r, "seed": p.next()}),
                80..=84 => json!({"op": "unstage", "r": r}),
                85..=89 => json!({"op": "export_replay", "r": r}),
                90..=93 => json!({"op": "reopen", "r": r}),
                94..=95 => json!({"op": "resolve", "r": r, "o": p.below(4), "leaf": p.below(3)}),
                96..=98 => {
                    ops.push(json!({"op": "unstage", "r": r}));
                    ops.push(json!({"op": "copy", "r": r, "s": 1 - r, "n": p.below(8)}));
                    json!({"op": "refresh", "r": r})
                }
                _ => json!({"op": "sync", "r": r, "s": 1 - r}),
            };
            ops.push(op);
        }
        for r in 0..nrep {
            ops.push(json!({"op": "commit", "r": r, "seed": p.next()}));
        }
        ops.push(json!({"op": "sync", "r": 0, "s": 1}));
        ops.push(json!({"op": "reopen", "r": 0}));
        return json!({"run": run, "replicas": nrep, "pool": *p.pick(&[1usize, 2, 4, 16]), "ops": ops, "label": format!("random:{}:{}", profile, seed),
            "floats": false, "nasty": true, "universe": 6, "list_seed": Value::Null});
    }
    if profile == "travel" {
        // forks below the root, merges, then time travel to every recorded head set and back
        ops.clear();
        let nrep = 2 + p.below(2);
        let pre = 1 + p.below(3);
        for _ in 0..pre {
            ops.push(json!({"op": "edit", "r": 0, "seed": p.next()}));
            ops.push(json!({"op": "commit", "r": 0, "seed": p.next()}));
        }
        for r in 1..nrep {
            ops.push(json!({"op": "sync", "r": r, "s": 0}));
        }
        let rounds = 1 + p.below(3);
        for _ in 0..rounds {
            for r in 0..nrep {
                for _ in 0..(1 + p.below(2)) {
                    ops.push(json!({"op": "edit", "r": r, "seed": p.next(), "arrays": p.chance(1, 2)}));
                    ops.push(json!({"op": "commit", "r": r, "seed": p.next()}));
                }
            }
            for r in 1..nrep {
                ops.push(json!({"op": "sync", "r": 0, "s": r}));
            }
            if p.chance(1, 2) {
                // a committed resolution becomes part of the history that is travelled later
                ops.push(json!({"op": "resolve", "r": 0, "o": p.below(8), "leaf": p.below(4)}));
                ops.push(json!({"op": "commit", "r": 0, "seed": p.next()}));
            }
            if p.chance(1, 2) {
                ops.push(json!({"op": "edit", "r": 0, "seed": p.next()}));
                ops.push(json!({"op": "commit", "r": 0, "seed": p.next()}));
            }
        }
        for r in 1..nrep {
            ops.push(json!({"op": "sync", "r": 0, "s": r}));
        }
        let who = p.below(nrep);
        for hs in 0..12 {
            ops.push(json!({"op": "reload_until", "r": who, "hs": hs}));
            if p.chance(1, 3) {
                ops.push(json!({"op": "reload", "r": who}));
            }
            if p.chance(1, 6) {
                ops.push(json!({"op": "edit", "r": who, "seed": p.next()}));
                ops.push(json!({"op": "commit", "r": who, "seed": p.next()}));
            }
        }
        ops.push(json!({"op": "reload", "r": who}));
        ops.push(json!({"op": "sync", "r": who, "s": (who + 1) % nrep}));
        return json!({"run": run, "replicas": nrep, "pool": *p.pick(&[1usize, 2, 4, 16]), "ops": ops, "label": format!("random:{}:{}", profile, seed),
            "floats": false, "nasty": p.chance(1, 2), "universe": 6, "list_seed": if p.chance(1, 2) { json!(p.next()) } else { Value::Null }});
    }
    if profile == "deliver" {
        // two writers build a branching history, a third replica receives it file by file
        ops.clear();
        let n = 3 + p.below(6);
        for _ in 0..n {
            let r = p.below(2);
            ops.push(json!({"op": "edit", "r": r, "seed": p.next()}));
            if p.chance(1, 3) {
                ops.push(json!({"op": "edit", "r": r, "seed": p.next()}));
            }
            ops.push(json!({"op": "commit", "r": r, "seed": p.next()}));
            if p.chance(1, 3) {
                ops.push(json!({"op": "sync", "r": 0, "s": 1}));
            }
            if p.chance(1, 6) {
                ops.push(json!({"op": "resolve", "r": r, "o": p.below(8), "leaf": p.below(4)}));
                ops.push(json!({"op": "commit", "r": r, "seed": p.next()}));
            }
        }
        ops.push(json!({"op": "unstage", "r": 0}));
        ops.push(json!({"op": "unstage", "r": 1}));
        ops.push(json!({"op": "sync", "r": 0, "s": 1}));
        if p.chance(1, 3) {
            // files arrive in batches of several, with a refresh between the batches only
            let perm = p.next() % 1_000_000_007;
            for _ in 0..4 {
                ops.push(json!({"op": "deliver", "r": 2, "s": 0, "perm": perm, "refresh_each": false, "limit": 1 + p.below(4)}));
                ops.push(json!({"op": "refresh", "r": 2}));
            }
        }
        ops.push(json!({"op": "deliver", "r": 2, "s": 0, "perm": p.next() % 1_000_000_007, "refresh_each": true, "flaky": p.chance(1, 3)}));
        ops.push(json!({"op": "reload", "r": 2}));
        ops.push(json!({"op": "sync", "r": 2, "s": 0}));
        return json!({"run": run, "replicas": 3, "pool": *p.pick(&[1usize, 2, 4, 16]), "ops": ops, "label": format!("random:{}:{}", profile, seed),
            "floats": false, "nasty": true, "universe": 6 + p.below(6), "list_seed": if p.chance(1, 2) { json!(p.next()) } else { Value::Null }});
    }
    if profile == "fail" {
        // write failures at every position of commit and meld, then retry and reopen
        ops.clear();
        let n = 3 + p.below(5);
        for _ in 0..n {
            let r = p.below(2);
            ops.push(json!({"op": "edit", "r": r, "seed": p.next()}));
            let plan: Vec<u64> = match p.below(6) { 0 => vec![1], 1 => vec![2], 2 => vec![1, 2], 3 => vec![1, 3], 4 => vec![2, 3], _ => vec![] };
            if !plan.is_empty() {
                ops.push(json!({"op": "commit", "r": r, "seed": p.next(), "fail": plan, "crashenum": true}));
                let same = p.chance(2, 3);      // the caller retries with the same metadata
                let mut edited = false;
                if p.chance(1, 2) {
                    ops.push(json!({"op": "commit", "r": r, "seed": p.next(), "fail": [1 + p.below(2)], "same_info": same}));
                    if p.chance(1, 3) {
                        ops.push(json!({"op": "commit", "r": r, "seed": p.next(), "fail": [1], "same_info": same}));
                    }
                }
                if p.chance(1, 3) {
                    ops.push(json!({"op": "edit", "r": r, "seed": p.next()}));
                    edited = true;
                }
                ops.push(json!({"op": "commit", "r": r, "seed": p.next(), "crashenum": true, "same_info": same && !edited}));
            } else {
                ops.push(json!({"op": "commit", "r": r, "seed": p.next(), "crashenum": true}));
            }
            if p.chance(1, 2) {
                ops.push(json!({"op": "reopen", "r": r}));
            }
            if p.chance(1, 2) {
                let f: Vec<u64> = if p.chance(1, 2) { vec![1 + p.below(3) as u64] } else { vec![] };
                if p.chance(1, 4) {
                    // the source's backend delivers a short read of a pack during this meld; the next meld is clean
                    ops.push(json!({"op": "meld", "r": 1 - r, "s": r, "short_read": 1 + p.below(2)}));
                    ops.push(json!({"op": "refresh", "r": 1 - r}));
                }
                ops.push(json!({"op": "meld", "r": 1 - r, "s": r, "fail": f, "crashenum": true}));
                ops.push(json!({"op": "refresh", "r": 1 - r}));
            }
        }
        nrep_override(&mut ops);
        for r in 0..2 {
            ops.push(json!({"op": "unstage", "r": r}));
            ops.push(json!({"op": "reopen", "r": r}));
        }
        ops.push(json!({"op": "sync", "r": 0, "s": 1}));
        return json!({"run": run, "replicas": 2, "pool": *p.pick(&[1usize, 2, 4, 16]), "ops": ops, "label": format!("random:{}:{}", profile, seed),
            "floats": false, "nasty": true, "universe": 6 + p.below(6), "list_seed": Value::Null});
    }
    if profile == "damage" && p.chance(1, 4) {
        // a block that is examined (again) only after the pack it names was damaged: the child arrives before
        // its parent and is held back, its pack is damaged, then the parent arrives
        ops.clear();
        let pre = p.below(2);
        for k in 0..pre {
            ops.push(json!({"op": "edit", "r": 1, "seed": p.next()}));
            ops.push(json!({"op": "commit", "r": 1, "bn": 10 + k}));
        }
        ops.push(json!({"op": "edit", "r": 1, "seed": p.next()}));
        ops.push(json!({"op": "commit", "r": 1, "bn": 1}));
        ops.push(json!({"op": "edit", "r": 1, "seed": p.next()}));
        ops.push(json!({"op": "commit", "r": 1, "bn": 2}));
        for k in 0..pre {
            ops.push(json!({"op": "copy_item", "r": 0, "kind": "pack", "bn": 10 + k, "s": 1}));
            ops.push(json!({"op": "copy_item", "r": 0, "kind": "delta", "bn": 10 + k, "s": 1}));
        }
        ops.push(json!({"op": "copy_item", "r": 0, "kind": "pack", "bn": 2, "s": 1}));
        ops.push(json!({"op": "copy_item", "r": 0, "kind": "delta", "bn": 2, "s": 1}));
        if p.chance(1, 2) {
            ops.push(json!({"op": "copy_item", "r": 0, "kind": "pack", "bn": 1, "s": 1}));
        }
        ops.push(json!({"op": "refresh", "r": 0}));
        ops.push(json!({"op": "damage_item", "r": 0, "kind": "pack", "bn": 2, "how": if p.chance(1, 2) { "delete" } else { "flip" }}));
        ops.push(json!({"op": "copy_item", "r": 0, "kind": "pack", "bn": 1, "s": 1}));
        ops.push(json!({"op": "copy_item", "r": 0, "kind": "delta", "bn": 1, "s": 1}));
        ops.push(json!({"op": "refresh", "r": 0}));
        if p.chance(1, 2) {
            ops.push(json!({"op": "reload", "r": 0}));
        }
        ops.push(json!({"op": "reopen", "r": 0}));
        return json!({"run": run, "replicas": 2, "pool": *p.pick(&[1usize, 2, 4, 16]), "ops": ops, "label": format!("random:{}:{}", profile, seed),
            "floats": false, "nasty": false, "universe": 6, "list_seed": Value::Null});
    }
    if profile == "damage" {
        ops.clear();
        let n = 2 + p.below(5);
        for _ in 0..n {
            let r = p.below(2);
            ops.push(json!({"op": "edit", "r": r, "seed": p.next()}));
            ops.push(json!({"op": "commit", "r": r, "seed": p.next()}));
            if p.chance(1, 3) {
                ops.push(json!({"op": "sync", "r": 0, "s": 1}));
            }
        }
        ops.push(json!({"op": "unstage", "r": 0}));
        ops.push(json!({"op": "unstage", "r": 1}));
        ops.push(json!({"op": "sync", "r": 0, "s": 1}));
        // replica 2 gets a byte copy of everything without loading it (so later damage hits items it never read)
        ops.push(json!({"op": "deliver", "r": 2, "s": 0, "seed": p.next(), "refresh_each": false}));
        let victim = if p.chance(2, 3) { 2 } else { p.below(2) };
        if p.chance(1, 2) {
            // the victim has loaded everything before the damage (cold object cache after a reopen)
            ops.push(json!({"op": "refresh", "r": victim}));
            if p.chance(1, 2) {
                ops.push(json!({"op": "reopen", "r": victim}));
            }
        }
        let nd = 1 + p.below(2);
        for _ in 0..nd {
            let kind = *p.pick(&["flip", "flip", "flipstr", "flipstr", "flipstr", "trunc", "empty", "delete", "inject"]);
            let mut d = json!({"op": "damage", "r": victim, "kind": kind, "n": p.below(64), "pos": p.next() % 1_000_003});
            if kind == "inject" {
                let names = ["zz.pack", "12-ab.delta", "foo.delta", "1-0000000000000000000000000000000000000000000000000000000000000000.delta",
                             "0000000000000000000000000000000000000000000000000000000000000000.pack"];
                d["key"] = json!(*p.pick(&names));
                d["bytes"] = json!(*p.pick(&["junk", "{}", "[]", "[{\"a\":1}]", "{\"c\":[[\"x\",\"y\"]]}", ""]));
            }
            ops.push(d);
            match p.below(4) {
                0 => ops.push(json!({"op": "refresh", "r": victim})),
                1 => ops.push(json!({"op": "reload", "r": victim})),
                _ => ops.push(json!({"op": "reopen", "r": victim})),
            }
        }
        ops.push(json!({"op": "refresh", "r": victim}));
        ops.push(json!({"op": "reopen", "r": victim}));
        return json!({"run": run, "replicas": 3, "pool": *p.pick(&[1usize, 2, 4, 16]), "ops": ops, "label": format!("random:{}:{}", profile, seed),
            "floats": false, "nasty": true, "universe": 6 + p.below(6), "list_seed": Value::Null});
    }
    // final all-pairs synchronisation
    for _ in 0..2 {
        for r in 0..nrep {
            ops.push(json!({"op": "unstage", "r": r}));
            ops.push(json!({"op": "reload", "r": r}));
        }
        for r in 0..nrep {
            for s in 0..nrep {
                if r < s {
                    ops.push(json!({"op": "sync", "r": r, "s": s}));
                }
            }
        }
    }
    let pools = [1usize, 2, 4, 16];
    json!({"run": run, "replicas": nrep, "pool": *p.pick(&pools), "ops": ops, "label": format!("random:{}:{}", profile, seed),
        "floats": profile == "floats" || p.chance(1, 3), "nasty": true, "universe": 8 + p.below(8),
        "list_seed": if p.chance(1, 2) { json!(p.next()) } else { Value::Null }})
}

fn nrep_override(_ops: &mut Vec<Value>) {}

pub fn sha_of_bytes(b: &[u8]) -> String {
    sha(b)
}
