// Projection of a replica onto the abstract Observation of spec/MeldaProps.tla (DESIGN 4.2).
// Everything is computed from the public API, hooks H2/H3 and raw adapter bytes; block and pack
// bytes are parsed with jsonx (no libmelda code involved).
use crate::jsonx::{canon, canon_sha, raw_member, sha, sha_str, split_array, tok};
use crate::store::Store;
use melda::melda::{DeltaId, Melda};
use serde_json::{json, Map, Value};
use std::collections::{BTreeMap, BTreeSet, HashMap};
use std::sync::{Arc, Mutex};

pub const FLAT: &str = "\u{266D}";
pub const ROOT: &str = "\u{221A}";
pub const CUSTOM_ROOT: &str = "my root";

/// Tables shared by all events of an output bundle (written as side files).
#[derive(Default)]
pub struct Tables {
    pub items: BTreeMap<String, Value>, // item token -> record
    pub revs: BTreeMap<String, Value>,  // revision text -> record
    item_cache: HashMap<(String, usize, String), String>, // (key,len,sha) -> token
}

impl Tables {
    pub fn rev(&mut self, r: &str) -> String {
        if !self.revs.contains_key(r) {
            self.revs.insert(r.to_string(), rev_record(r));
        }
        r.to_string()
    }
}

pub fn parse_rev(r: &str) -> Option<(u32, String, Option<String>)> {
    let dash = r.find('-')?;
    let idx: u32 = r[..dash].parse().ok()?;
    let rest = &r[dash + 1..];
    if rest.is_empty() {
        return None;
    }
    match rest.rfind('_') {
        Some(p) if p > 0 && p + 1 < rest.len() => {
            Some((idx, rest[..p].to_string(), Some(rest[p + 1..].to_string())))
        }
        _ => Some((idx, rest.to_string(), None)),
    }
}

fn digest_kind(d: &str) -> &'static str {
    if d == "r" {
        "r"
    } else if d == "d" {
        "d"
    } else if d == "e" {
        "e"
    } else if d.len() <= 8 && u32::from_str_radix(d, 16).is_ok() {
        "c"
    } else {
        "v"
    }
}

fn rev_record(r: &str) -> Value {
    match parse_rev(r) {
        Some((idx, dig, tail)) => json!({
            "rev": r, "idx": idx, "dig": dig, "kind": digest_kind(&dig),
            "tail": tail.unwrap_or_default(), "tailof": sha_str(r)[..7].to_string(),
            "bytes": r.bytes().map(|b| b as u32).collect::<Vec<u32>>(), "wf": true}),
        None => json!({"rev": r, "idx": 0, "dig": "", "kind": "x", "tail": "", "tailof": "",
            "bytes": r.bytes().map(|b| b as u32).collect::<Vec<u32>>(), "wf": false}),
    }
}

/// The identifier rule (C19), written independently of libmelda: index = parent index + 1,
/// tail = first 7 hex digits of SHA-256 of the parent's text.
pub fn child_rev(parent: &str, digest: &str) -> Option<String> {
    let (pidx, _, _) = parse_rev(parent)?;
    Some(format!("{}-{}_{}", pidx + 1, digest, &sha_str(parent)[..7]))
}

fn parse_delta_name(name: &str) -> Option<(u32, String)> {
    let dash = name.find('-')?;
    let idx: u32 = name[..dash].parse().ok()?;
    let d = &name[dash + 1..];
    if d.is_empty() || !d.chars().all(|c| c.is_ascii_alphanumeric() || c == '_') {
        return None;
    }
    Some((idx, d.to_string()))
}

/// Parses one stored item.  `hashok`: bytes hash to the name; `wf`: block grammar is respected.
pub fn item_record(tables: &mut Tables, key: &str, bytes: &[u8]) -> String {
    let digest = sha(bytes);
    let ck = (key.to_string(), bytes.len(), digest.clone());
    if let Some(t) = tables.item_cache.get(&ck) {
        return t.clone();
    }
    let token = format!("{}%23{}", tok(key), &digest[..12]);
    let mut rec = json!({"tok": token, "key": tok(key), "kind": "other", "name": "", "hashok": false,
        "wf": false, "sha": digest, "idx": 0, "parents": [], "packs": [], "changes": [], "objs": [],
        "info": "", "len": bytes.len()});
    if let Some(name) = key.strip_suffix(".pack") {
        rec["kind"] = json!("pack");
        rec["name"] = json!(tok(name));
        rec["hashok"] = json!(name == digest);
        if let Some(ranges) = split_array(bytes) {
            rec["wf"] = json!(true);
            rec["objs"] =
                Value::from(ranges.iter().map(|(s, e)| sha(&bytes[*s..*e])).collect::<Vec<_>>());
        }
    } else if let Some(name) = key.strip_suffix(".delta") {
        rec["kind"] = json!("delta");
        rec["name"] = json!(tok(name));
        if let Some((idx, d)) = parse_delta_name(name) {
            rec["idx"] = json!(idx);
            rec["hashok"] = json!(d == digest);
            if let Some((parents, packs, changes, info)) = parse_block(tables, bytes) {
                rec["wf"] = json!(true);
                rec["parents"] = Value::from(parents);
                rec["packs"] = Value::from(packs);
                rec["changes"] = Value::from(changes);
                rec["info"] = json!(info);
            }
        }
    }
    tables.items.insert(token.clone(), rec);
    tables.item_cache.insert(ck, token.clone());
    token
}

/// Block grammar (DESIGN 4.6 item 4): object with optional members c (array of 2- or 3-string
/// records), i (object), k (array of strings), p (array of block names).
fn parse_block(
    tables: &mut Tables,
    bytes: &[u8],
) -> Option<(Vec<String>, Vec<String>, Vec<Value>, String)> {
    let text = std::str::from_utf8(bytes).ok()?;
    let v: Value = serde_json::from_str(text).ok()?;
    let o = v.as_object()?;
    let mut parents = vec![];
    if let Some(p) = o.get("p") {
        for x in p.as_array()? {
            let s = x.as_str()?;
            parse_delta_name(s)?;
            parents.push(tok(s));
        }
    }
    let mut packs = vec![];
    if let Some(k) = o.get("k") {
        for x in k.as_array()? {
            packs.push(tok(x.as_str()?));
        }
    }
    let mut changes = vec![];
    if let Some(c) = o.get("c") {
        for rec in c.as_array()? {
            let rec = rec.as_array()?;
            if rec.len() == 2 {
                let uuid = rec[0].as_str()?;
                let rev = format!("1-{}", rec[1].as_str()?);
                changes.push(json!({"o": tok(uuid), "rev": tables.rev(&rev), "prev": ""}));
            } else if rec.len() == 3 {
                let uuid = rec[0].as_str()?;
                let prev = rec[1].as_str()?;
                let rev = child_rev(prev, rec[2].as_str()?)?;
                changes.push(
                    json!({"o": tok(uuid), "rev": tables.rev(&rev), "prev": tables.rev(prev)}),
                );
            } else {
                return None;
            }
        }
    }
    let info = match o.get("i") {
        Some(i) => {
            i.as_object()?;
            sha(raw_member(bytes, "i")?)
        }
        None => String::new(),
    };
    Some((parents, packs, changes, info))
}

// ------------------------------------------------------------------ document projection

pub struct DocProj {
    pub sha: String,
    pub objs: BTreeMap<String, String>,
    pub arrays: BTreeMap<String, Vec<String>>,
}

fn gen_id(o: &Map<String, Value>, path: &[String]) -> String {
    if let Some(Value::String(s)) = o.get("_id") {
        s.clone()
    } else if path.is_empty() {
        ROOT.to_string()
    } else {
        sha_str(&path.join(""))
    }
}

pub fn elem_token(v: &Value) -> String {
    match v {
        Value::String(s) if !s.starts_with('!') => tok(s),
        _ => format!("%23{}", &canon_sha(v)[..10]),
    }
}

/// Returns the flattened reference value and the normalised value (every tracked object carries
/// its identifier, which is the only thing `read` may add to a submitted document).
fn walk_flat(p: &mut DocProj, v: &Value, path: &[String]) -> (Value, Value) {
    match v {
        Value::String(s) => (Value::from(format!("!{}", s)), v.clone()),
        Value::Array(a) => {
            let parts: Vec<(Value, Value)> = a.iter().map(|e| walk_flat(p, e, path)).collect();
            (
                Value::from(parts.iter().map(|x| x.0.clone()).collect::<Vec<_>>()),
                Value::from(parts.iter().map(|x| x.1.clone()).collect::<Vec<_>>()),
            )
        }
        Value::Object(o) => {
            let (id, norm) = walk_obj(p, o, path);
            (Value::from(id), norm)
        }
        _ => (v.clone(), v.clone()),
    }
}

fn walk_obj(p: &mut DocProj, o: &Map<String, Value>, path: &[String]) -> (String, Value) {
    let id = gen_id(o, path);
    let mut fpath = path.to_vec();
    fpath.push(id.clone());
    let mut own = Map::new();
    let mut norm = Map::new();
    norm.insert("_id".to_string(), Value::from(id.clone()));
    for (k, v) in o {
        if k == "_id" {
            continue;
        }
        if k.ends_with(FLAT) {
            let mut kp = fpath.clone();
            kp.push(k.clone());
            let (fv, nv) = walk_flat(p, v, &kp);
            norm.insert(k.clone(), nv);
            // own content: references (arrays, objects) and null (what a reference to an object shown
            // elsewhere reads as) are placement, not content
            if let Value::Array(a) = &fv {
                let did = format!("^{}@{}", id, k);
                p.arrays.insert(tok(&did), a.iter().map(elem_token).collect());
                own.insert(k.clone(), Value::from("*"));
            } else if v.is_object() || v.is_null() {
                own.insert(k.clone(), Value::from("*"));
            } else {
                own.insert(k.clone(), fv);
            }
        } else {
            own.insert(k.clone(), v.clone());
            norm.insert(k.clone(), v.clone());
        }
    }
    p.objs.insert(tok(&id), canon_sha(&Value::from(own)));
    (id, Value::from(norm))
}

/// Structural projection of a document (submitted or read back).
pub fn project_doc(doc: &Map<String, Value>) -> DocProj {
    let mut p = DocProj { sha: String::new(), objs: BTreeMap::new(), arrays: BTreeMap::new() };
    let (_, norm) = walk_obj(&mut p, doc, &[]);
    p.sha = canon_sha(&norm);
    p
}

pub fn docproj_json(p: &DocProj) -> Value {
    json!({"ok": true, "err": "", "sha": p.sha, "objs": p.objs, "arrays": p.arrays})
}

// ------------------------------------------------------------------ replica projection

pub struct Replica {
    pub name: String,
    pub melda: Melda,
    pub store: Arc<Mutex<Store>>,
    /// memo of reconstructed stored orders: (descriptor uuid, revision) -> element tokens
    pub order_memo: HashMap<(String, String), Option<Vec<String>>>,
    /// custom root identifier of the document last submitted to this replica (None = default root)
    pub root: Option<String>,
}

/// Own edit-script applier (trusted base; cross-checked by the C16 function level).
fn apply_script(order: &mut Vec<Value>, patch: &[Value]) -> bool {
    for op in patch {
        let a = match op.as_array() {
            Some(a) if a.len() == 3 => a,
            _ => return false,
        };
        match a[0].as_str() {
            Some("d") => {
                let (n, i) = match (a[1].as_u64(), a[2].as_u64()) {
                    (Some(n), Some(i)) => (n as usize, i as usize),
                    _ => return false,
                };
                if i + n > order.len() {
                    return false;
                }
                order.drain(i..i + n);
            }
            Some("i") => {
                let i = match a[1].as_u64() {
                    Some(i) => i as usize,
                    None => return false,
                };
                let items = match a[2].as_array() {
                    Some(x) => x.clone(),
                    None => return false,
                };
                if i > order.len() {
                    return false;
                }
                order.splice(i..i, items);
            }
            _ => return false,
        }
    }
    true
}

fn stored_order(
    rep: &mut Replica,
    uuid: &str,
    rev: &str,
    parents: &HashMap<String, String>,
    depth: usize,
) -> Option<Vec<Value>> {
    if depth > 10_000 {
        return None;
    }
    let v = rep.melda.get_value(uuid, Some(rev)).ok()?;
    if let Some(a) = v.get("A") {
        return a.as_array().cloned();
    }
    if let Some(p) = v.get("a") {
        let par = parents.get(rev)?;
        let mut base = stored_order(rep, uuid, par, parents, depth + 1)?;
        if !apply_script(&mut base, p.as_array()?) {
            return None;
        }
        return Some(base);
    }
    if v.get("_deleted").is_some() || v.get("_resolved").is_some() {
        return Some(vec![]);
    }
    None
}

pub fn status_map(rep: &Replica) -> BTreeMap<String, &'static str> {
    rep.melda.verif_delta_status()
}

/// The Observation.  `full`: also log historical values and stored orders.
pub fn observe(tables: &mut Tables, rep: &mut Replica, full: bool) -> Value {
    // which root the document is read from is a function of the replica's state: the custom root
    // of the generated documents when that object is alive, else the default root
    let custom = match rep.melda.get_winner(CUSTOM_ROOT) {
        Ok(w) => parse_rev(&w).map(|p| p.1 != "d").unwrap_or(false),
        Err(_) => false,
    };
    observe_root(tables, rep, full, if custom { Some(CUSTOM_ROOT) } else { None })
}

/// `root`: identifier of the root object of the document the replica's user works with
/// (None = the default root).
pub fn observe_root(tables: &mut Tables, rep: &mut Replica, full: bool, root: Option<&str>) -> Value {
    // --- storage
    let items = rep.store.lock().unwrap().items();
    let mut item_toks = vec![];
    for (k, b) in &items {
        item_toks.push(item_record(tables, k, b));
    }
    // --- block status (H2), blocks (get_delta), heads
    let status: BTreeMap<String, &'static str> =
        status_map(rep).into_iter().map(|(k, v)| (tok(&k), v)).collect();
    let heads: Vec<String> = rep.melda.get_anchors().iter().map(|d| tok(&d.to_string())).collect();
    let mut deltas = Map::new();
    for k in rep.melda.verif_delta_status().keys() {
        if let Ok(id) = DeltaId::from(k) {
            if let Ok(Some(d)) = rep.melda.get_delta(&id) {
                let parents: Vec<String> = d
                    .parents
                    .as_ref()
                    .map(|p| p.iter().map(|x| tok(&x.to_string())).collect())
                    .unwrap_or_default();
                let packs: Vec<String> =
                    d.packs.as_ref().map(|p| p.iter().map(|x| tok(x)).collect()).unwrap_or_default();
                let info = match &d.info {
                    Some(i) => sha_str(&serde_json::to_string(i).unwrap()),
                    None => String::new(),
                };
                deltas.insert(tok(k), json!({"parents": parents, "packs": packs, "info": info}));
            }
        }
    }
    // --- objects, trees (H3), winners, conflicts
    let objects: BTreeSet<String> = rep.melda.get_all_objects();
    let mut trees = Map::new();
    let mut winner = Map::new();
    let mut confl = Map::new();
    let mut vals = Map::new();
    let mut orders = Map::new();
    for o in &objects {
        let t = rep.melda.verif_tree(o).unwrap_or_default();
        let mut parents: HashMap<String, String> = HashMap::new();
        let mut recs = vec![];
        for (r, p, st) in &t {
            tables.rev(r);
            if let Some(p) = p {
                tables.rev(p);
                parents.insert(r.clone(), p.clone());
            }
            recs.push(json!({"rev": r, "par": p.clone().unwrap_or_default(), "st": st}));
        }
        trees.insert(tok(o), Value::from(recs));
        let w = rep.melda.get_winner(o).unwrap_or_default();
        if !w.is_empty() {
            tables.rev(&w);
        }
        winner.insert(tok(o), Value::from(w));
        let c: Vec<String> = match rep.melda.get_conflicting(o) {
            Ok(c) => c.into_iter().collect(),
            Err(_) => vec![],
        };
        for r in &c {
            tables.rev(r);
        }
        confl.insert(tok(o), Value::from(c));
        if full {
            for (r, p, _) in &t {
                let v = match rep.melda.get_value(o, Some(r)) {
                    Ok(v) => canon_sha(&Value::from(v)),
                    Err(e) => format!("ERR:{}", tok(&e.to_string())),
                };
                let gp = match rep.melda.get_parent_revision(o, r) {
                    Ok(x) => x.unwrap_or_default(),
                    Err(e) => format!("ERR:{}", tok(&e.to_string())),
                };
                debug_assert!(gp == p.clone().unwrap_or_default() || gp.starts_with("ERR"));
                vals.insert(format!("{}|{}", tok(o), r), json!({"v": v, "p": gp}));
            }
            if o.starts_with('^') {
                for (r, _, _) in &t {
                    let key = (o.clone(), r.clone());
                    let ord = if let Some(x) = rep.order_memo.get(&key) {
                        x.clone()
                    } else {
                        let x = stored_order(rep, o, r, &parents, 0)
                            .map(|v| v.iter().map(elem_token).collect::<Vec<_>>());
                        rep.order_memo.insert(key, x.clone());
                        x
                    };
                    let val = match ord {
                        Some(x) => json!({"ok": true, "seq": x}),
                        None => json!({"ok": false, "seq": []}),
                    };
                    orders.insert(format!("{}|{}", tok(o), r), val);
                }
            }
        }
    }
    let inconf: Vec<String> = rep.melda.in_conflict().iter().map(|o| tok(o)).collect();
    // --- stage
    let staging = rep.melda.has_staging();
    let mut stageobjs: Vec<String> = vec![];
    let stage = match rep.melda.stage() {
        Ok(Some(v)) => {
            if let Some(o) = v.get("o").and_then(|o| o.as_object()) {
                stageobjs = o.keys().cloned().collect();
            }
            stage_digest(&v)
        }
        Ok(None) => String::new(),
        Err(e) => format!("ERR:{}", tok(&e.to_string())),
    };
    // --- document
    // reading the default root must return (value or error) whatever root the user works with
    let rd0 = if root.is_some() {
        match std::panic::catch_unwind(std::panic::AssertUnwindSafe(|| rep.melda.read(None))) {
            Ok(Ok(_)) => "ok",
            Ok(Err(_)) => "err",
            Err(_) => "panic",
        }
    } else {
        "same"
    };
    let doc = match rep.melda.read(root) {
        Ok(d) => docproj_json(&project_doc(&d)),
        Err(e) => {
            json!({"ok": false, "err": tok(&e.to_string()), "sha": "", "objs": {}, "arrays": {}})
        }
    };
    json!({
        "items": item_toks, "status": status, "heads": heads, "deltas": deltas,
        "objects": objects.iter().map(|o| tok(o)).collect::<Vec<_>>(),
        "trees": trees, "winner": winner, "confl": confl, "inconf": inconf,
        "staging": staging, "stage": stage, "stageobjs": stageobjs, "doc": doc, "rd0": rd0, "full": full, "vals": vals, "orders": orders,
    })
}

/// Digest of a stage export as a *set* (change records and object map are order-free).
pub fn stage_digest(v: &Value) -> String {
    let mut recs: Vec<String> = v
        .get("c")
        .and_then(|c| c.as_array())
        .map(|a| a.iter().map(canon).collect())
        .unwrap_or_default();
    recs.sort();
    let objs = v.get("o").map(canon).unwrap_or_default();
    sha_str(&format!("{}|{}", recs.join(","), objs))
}
