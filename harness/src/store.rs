// VerifAdapter: a logging / fault-injecting implementation of the public Adapter trait.
// The driver (never libmelda) may damage, delete or inject items through `Store`.
use crate::jsonx::sha;
use crate::prng::Prng;
use anyhow::{anyhow, Result};
use melda::adapter::Adapter;
use std::any::Any;
use std::collections::BTreeMap;
use std::sync::{Arc, Mutex};

#[derive(Clone, Debug)]
pub struct WriteRec {
    pub seq: u64,
    pub key: String,
    pub sha: String,
    pub outcome: &'static str, // "stored" | "ignored" | "failed"
    pub bytes: Arc<Vec<u8>>,
}

pub enum Backing {
    Own(BTreeMap<String, Arc<Vec<u8>>>),
    Inner(Box<dyn Adapter>),
}

pub struct Store {
    pub backing: Backing,
    pub log: Vec<WriteRec>,
    pub seq: u64,
    /// writes whose 1-based position (counted from `fail_base`) is in this list fail
    pub fail_at: Vec<u64>,
    pub fail_base: u64,
    /// every write fails while set
    pub fail_all: bool,
    /// the next `fail_reads` reads of a pack fail (a transient read error of the backend)
    pub fail_reads: usize,
    /// the next `short_reads` whole reads of a pack return only the first half of its bytes (a short read)
    pub short_reads: usize,
    pub list_seed: Option<u64>,
    /// bumps on every mutation of the item set (cache key for the projection)
    pub version: u64,
}

impl Store {
    pub fn new_own() -> Store {
        Store {
            backing: Backing::Own(BTreeMap::new()),
            log: vec![],
            seq: 0,
            fail_at: vec![],
            fail_base: 0,
            fail_all: false,
            fail_reads: 0,
            short_reads: 0,
            list_seed: None,
            version: 0,
        }
    }
    pub fn new_inner(inner: Box<dyn Adapter>) -> Store {
        let mut s = Store::new_own();
        s.backing = Backing::Inner(inner);
        s
    }
    pub fn from_items(items: &BTreeMap<String, Arc<Vec<u8>>>) -> Store {
        let mut s = Store::new_own();
        s.backing = Backing::Own(items.clone());
        s
    }
    /// All items as (key -> bytes); for Inner backends read through the adapter.
    pub fn items(&self) -> BTreeMap<String, Arc<Vec<u8>>> {
        match &self.backing {
            Backing::Own(m) => m.clone(),
            Backing::Inner(a) => {
                let mut m = BTreeMap::new();
                if let Ok(keys) = a.list_objects("") {
                    for k in keys {
                        if let Ok(b) = a.read_object(&k, 0, 0) {
                            m.insert(k, Arc::new(b));
                        }
                    }
                }
                m
            }
        }
    }
    /// File-level copy of one item into this storage (any backing).
    pub fn insert_item(&mut self, key: &str, bytes: Arc<Vec<u8>>) {
        self.version += 1;
        match &mut self.backing {
            Backing::Own(m) => {
                m.entry(key.to_string()).or_insert(bytes);
            }
            Backing::Inner(a) => {
                let _ = a.write_object(key, &bytes);
            }
        }
    }
    pub fn is_own(&self) -> bool {
        matches!(self.backing, Backing::Own(_))
    }
    pub fn own_mut(&mut self) -> &mut BTreeMap<String, Arc<Vec<u8>>> {
        self.version += 1;
        match &mut self.backing {
            Backing::Own(m) => m,
            Backing::Inner(_) => panic!("damage on inner backend not supported"),
        }
    }
}

#[derive(Clone)]
pub struct VerifAdapter {
    pub store: Arc<Mutex<Store>>,
}

impl VerifAdapter {
    pub fn new(store: Arc<Mutex<Store>>) -> VerifAdapter {
        VerifAdapter { store }
    }
}

impl Adapter for VerifAdapter {
    fn as_any(&self) -> &dyn Any {
        self
    }
    fn as_any_mut(&mut self) -> &mut dyn Any {
        self
    }

    fn read_object(&self, key: &str, offset: usize, length: usize) -> Result<Vec<u8>> {
        let mut s = self.store.lock().unwrap();
        if s.fail_reads > 0 && key.ends_with(".pack") {
            s.fail_reads -= 1;
            return Err(anyhow!("injected_read_failure"));
        }
        let short = if s.short_reads > 0 && key.ends_with(".pack") && offset == 0 && length == 0 {
            s.short_reads -= 1;
            true
        } else {
            false
        };
        match &s.backing {
            Backing::Own(m) => {
                let data = m.get(key).ok_or_else(|| anyhow!("object not found: {}", key))?;
                if short {
                    return Ok(data[..data.len() / 2].to_vec());
                }
                if offset == 0 && length == 0 {
                    Ok(data.as_ref().clone())
                } else {
                    if offset + length > data.len() {
                        return Err(anyhow!("invalid slice range for key: {}", key));
                    }
                    Ok(data[offset..offset + length].to_vec())
                }
            }
            Backing::Inner(a) => a.read_object(key, offset, length),
        }
    }

    fn write_object(&self, key: &str, data: &[u8]) -> Result<()> {
        let mut s = self.store.lock().unwrap();
        s.seq += 1;
        let seq = s.seq;
        let pos = seq - s.fail_base;
        let digest = sha(data);
        let bytes = Arc::new(data.to_vec());
        if s.fail_all || s.fail_at.contains(&pos) {
            s.log.push(WriteRec { seq, key: key.to_string(), sha: digest, outcome: "failed", bytes });
            return Err(anyhow!("injected_write_failure"));
        }
        let outcome;
        match &mut s.backing {
            Backing::Own(m) => {
                if m.contains_key(key) {
                    outcome = "ignored";
                } else {
                    m.insert(key.to_string(), bytes.clone());
                    outcome = "stored";
                }
            }
            Backing::Inner(a) => {
                let existed = a.read_object(key, 0, 0).is_ok();
                a.write_object(key, data)?;
                outcome = if existed { "ignored" } else { "stored" };
            }
        }
        s.version += 1;
        s.log.push(WriteRec { seq, key: key.to_string(), sha: digest, outcome, bytes });
        Ok(())
    }

    fn list_objects(&self, ext: &str) -> Result<Vec<String>> {
        let s = self.store.lock().unwrap();
        let mut list: Vec<String> = match &s.backing {
            Backing::Own(m) => m
                .keys()
                .filter(|k| k.ends_with(ext))
                .map(|k| k[..k.len() - ext.len()].to_string())
                .collect(),
            Backing::Inner(a) => a.list_objects(ext)?,
        };
        if let Some(seed) = s.list_seed {
            let mut p = Prng::new(seed ^ (list.len() as u64).wrapping_mul(0x9E37));
            p.shuffle(&mut list);
        }
        Ok(list)
    }
}
