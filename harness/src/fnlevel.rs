// Function-level drivers: run the real functions (through hook H1) on enumerated input spaces and
// log input + output; spec/FnTrace.tla checks every logged output against the relation the
// property demands.
use crate::obs::Tables;
use crate::prng::Prng;
use melda::verif::{apply_diff_patch, make_diff_patch, merge_arrays, Revision, RevisionTree};
use serde_json::{json, Value};
use std::collections::hash_map::DefaultHasher;
use std::hash::{Hash, Hasher};
use std::io::Write;
use std::panic::{catch_unwind, AssertUnwindSafe};

fn seqs(alpha: &[&str], maxlen: usize, repeats: bool) -> Vec<Vec<String>> {
    let mut out: Vec<Vec<String>> = vec![vec![]];
    let mut frontier: Vec<Vec<String>> = vec![vec![]];
    for _ in 0..maxlen {
        let mut next = vec![];
        for s in &frontier {
            for a in alpha {
                if !repeats && s.iter().any(|x| x == a) {
                    continue;
                }
                let mut t = s.clone();
                t.push(a.to_string());
                next.push(t);
            }
        }
        out.extend(next.iter().cloned());
        frontier = next;
    }
    out
}

fn vals(s: &[String]) -> Vec<Value> {
    s.iter().map(|x| Value::from(x.clone())).collect()
}
fn strs(v: &[Value]) -> Vec<String> {
    v.iter().map(|x| x.as_str().map(|s| s.to_string()).unwrap_or_else(|| x.to_string())).collect()
}

pub struct Out {
    files: Vec<std::io::BufWriter<std::fs::File>>,
    n: usize,
    pub count: u64,
}

impl Out {
    pub fn new(dir: &str, name: &str, shards: usize) -> Out {
        std::fs::create_dir_all(dir).unwrap();
        let files = (0..shards)
            .map(|i| std::io::BufWriter::new(std::fs::File::create(format!("{}/{}{:03}.fn.ndjson", dir, name, i)).unwrap()))
            .collect();
        Out { files, n: 0, count: 0 }
    }
    pub fn put(&mut self, v: Value) {
        let k = self.n % self.files.len();
        self.n += 1;
        self.count += 1;
        writeln!(self.files[k], "{}", v).unwrap();
    }
    pub fn finish(mut self) -> u64 {
        for f in self.files.iter_mut() {
            f.flush().unwrap();
        }
        self.count
    }
}

/// C06: merge_arrays on every ordered pair of duplicate-free sequences.
pub fn fn_merge(dir: &str, nsym: usize, maxlen: usize, shards: usize) -> u64 {
    let alpha = ["a", "b", "c", "d", "e", "f"];
    let ss = seqs(&alpha[..nsym], maxlen, false);
    let mut out = Out::new(dir, "merge", shards);
    for m in &ss {
        for n in &ss {
            let mut nn = vals(n);
            let r = catch_unwind(AssertUnwindSafe(|| merge_arrays(&vals(m), &mut nn)));
            out.put(json!({"op": "Merge", "m": m, "n": n, "out": strs(&nn), "panic": r.is_err()}));
        }
    }
    // triples: fold two versions into a base, as get_merged_order_at_revision does
    let ts = seqs(&alpha[..nsym.min(3)], maxlen.min(3), false);
    for a in &ts {
        for b in &ts {
            for base in &ts {
                let mut nn = vals(base);
                let r = catch_unwind(AssertUnwindSafe(|| {
                    merge_arrays(&vals(a), &mut nn);
                    merge_arrays(&vals(b), &mut nn);
                }));
                out.put(json!({"op": "Merge3", "a": a, "b": b, "n": base, "out": strs(&nn), "panic": r.is_err()}));
            }
        }
    }
    out.finish()
}

/// C16: edit scripts on every pair of sequences (repeats allowed).
pub fn fn_diff(dir: &str, nsym: usize, maxlen: usize, shards: usize, extra_binary: usize) -> u64 {
    let alpha = ["x", "y", "z", "w"];
    let mut ss = seqs(&alpha[..nsym], maxlen, true);
    if extra_binary > maxlen {
        for s in seqs(&alpha[..2], extra_binary, true) {
            if s.len() > maxlen {
                ss.push(s);
            }
        }
    }
    let mut out = Out::new(dir, "diff", shards);
    let mut p = Prng::new(7);
    let total = ss.len();
    for (i, old) in ss.iter().enumerate() {
        for (j, new) in ss.iter().enumerate() {
            // the long binary block is sampled, the base block is exhaustive
            if (old.len() > maxlen || new.len() > maxlen) && !p.chance(1, 1 + (total / 400) as u64) {
                let _ = (i, j);
                continue;
            }
            let r = catch_unwind(AssertUnwindSafe(|| {
                let script = make_diff_patch(&vals(old), &vals(new)).map_err(|e| e.to_string())?;
                let mut o = vals(old);
                apply_diff_patch(&mut o, &script).map_err(|e| e.to_string())?;
                Ok::<(Vec<Value>, Vec<Value>), String>((script, o))
            }));
            match r {
                Ok(Ok((script, o))) => {
                    // scripts as uniform records for TLC: [k, a, b, items]
                    let sc: Vec<Value> = script
                        .iter()
                        .map(|op| {
                            if op[0] == "d" {
                                json!({"k": "d", "n": op[1], "i": op[2], "items": []})
                            } else {
                                json!({"k": "i", "n": 0, "i": op[1], "items": op[2]})
                            }
                        })
                        .collect();
                    out.put(json!({"op": "Diff", "old": old, "new": new, "script": sc, "out": strs(&o), "res": "ok"}));
                }
                Ok(Err(e)) => out.put(json!({"op": "Diff", "old": old, "new": new, "script": [], "out": [], "res": format!("err:{}", e)})),
                Err(_) => out.put(json!({"op": "Diff", "old": old, "new": new, "script": [], "out": [], "res": "panic"})),
            }
        }
    }
    out.finish()
}

fn hash_of(r: &Revision) -> u64 {
    let mut h = DefaultHasher::new();
    r.hash(&mut h);
    h.finish()
}

fn rev_pool() -> Vec<String> {
    // digests: special ones, char codes, digests that extend a special one, ordinary ones
    let digs = [
        "d", "r", "e", "6", "61", "0a1b2c3d", "d0", "d9ff", "e5", "r2", "dz",
        "d0442839aa2c7f1f4a3e1b5c6d7e8f90112233445566778899aabbccddeeff00",
        "e1442839aa2c7f1f4a3e1b5c6d7e8f90112233445566778899aabbccddeeff00",
        "0f442839aa2c7f1f4a3e1b5c6d7e8f90112233445566778899aabbccddeeff00",
        "ff442839aa2c7f1f4a3e1b5c6d7e8f90112233445566778899aabbccddeeff00",
    ];
    let idxs = [1u32, 2, 9, 10, 11, 99, 100, 101, 2000000000];
    let tails = ["abc1234", "0bc1234", "zzz0000"];
    let mut out = vec![];
    for i in idxs {
        for d in digs {
            if i == 1 {
                out.push(format!("{}-{}", i, d));
            } else {
                for t in tails {
                    out.push(format!("{}-{}_{}", i, d, t));
                }
            }
        }
    }
    out
}

/// C19 / C05: print / parse round trip of identifiers, the comparison matrix, chains built with the constructors.
pub fn fn_revision(dir: &str, shards: usize, seed: u64, sample: usize) -> (u64, Tables) {
    let mut tables = Tables::default();
    let mut out = Out::new(dir, "rev", shards);
    let mut pool = rev_pool();
    // chains built by the constructors, across decimal-length boundaries
    let mut cur = Revision::new(1u32, "0f442839aa2c7f1f4a3e1b5c6d7e8f90112233445566778899aabbccddeeff00", None);
    pool.push(cur.to_string());
    for i in 0..105u32 {
        let next = match i % 7 {
            3 => Revision::new_deleted(&cur),
            5 => Revision::new_updated("e", &cur),
            _ => Revision::new_updated(format!("{:064x}", (i as u64 + 1) * 0x9E3779B97F4A7C15), &cur),
        };
        out.put(json!({"op": "Child", "parent": tables.rev(&cur.to_string()), "dig": next.digest(), "child": tables.rev(&next.to_string())}));
        let sealed = Revision::new_resolved(&cur);
        out.put(json!({"op": "Child", "parent": tables.rev(&cur.to_string()), "dig": "r", "child": tables.rev(&sealed.to_string())}));
        if i < 12 || i > 95 {
            pool.push(next.to_string());
            pool.push(sealed.to_string());
        }
        cur = next;
    }
    for r in &pool {
        match Revision::from(r) {
            Ok(p) => out.put(json!({"op": "Rev", "rev": tables.rev(r), "printed": p.to_string(), "idx": p.index(),
                "dig": p.digest(), "res": p.is_resolved(), "del": p.is_deleted(), "ok": true})),
            Err(_) => out.put(json!({"op": "Rev", "rev": tables.rev(r), "printed": "", "idx": 0, "dig": "", "res": false, "del": false, "ok": false})),
        }
    }
    let parsed: Vec<(String, Revision)> = pool.iter().filter_map(|r| Revision::from(r).ok().map(|p| (r.clone(), p))).collect();
    let mut p = Prng::new(seed);
    let n = parsed.len();
    let full = n * n <= sample;
    let pairs = if full { n * n } else { sample };
    for k in 0..pairs {
        let (i, j) = if full { (k / n, k % n) } else { (p.below(n), p.below(n)) };
        let (ta, a) = &parsed[i];
        let (tb, b) = &parsed[j];
        let c = match a.cmp(b) {
            std::cmp::Ordering::Less => -1,
            std::cmp::Ordering::Equal => 0,
            std::cmp::Ordering::Greater => 1,
        };
        out.put(json!({"op": "Cmp", "a": tables.rev(ta), "b": tables.rev(tb), "cmp": c, "eq": a == b, "hasheq": hash_of(a) == hash_of(b)}));
    }
    // triples for transitivity of the implemented order itself
    for _ in 0..(sample / 4) {
        let (a, b, c) = (&parsed[p.below(n)], &parsed[p.below(n)], &parsed[p.below(n)]);
        let ab = a.1 < b.1;
        let bc = b.1 < c.1;
        let ac = a.1 < c.1;
        out.put(json!({"op": "Trans", "a": tables.rev(&a.0), "b": tables.rev(&b.0), "c": tables.rev(&c.0), "ab": ab, "bc": bc, "ac": ac}));
    }
    (out.finish(), tables)
}

/// C05: revision trees of every small shape under every insertion order.
pub fn fn_revtree(dir: &str, shards: usize, seed: u64, nshapes: usize, maxn: usize) -> (u64, Tables) {
    let mut tables = Tables::default();
    let mut out = Out::new(dir, "tree", shards);
    let mut p = Prng::new(seed);
    // candidate nodes: (text, parent text or "")
    let digs = ["aa", "d", "r", "e", "d0", "zz", "0f"];
    for shape in 0..nshapes {
        let n = 1 + p.below(maxn);
        let mut nodes: Vec<(String, String)> = vec![];
        for _ in 0..n {
            // either a root, a child of an existing node, or a node with a dangling parent
            let kind = p.below(10);
            let cand = if nodes.is_empty() || kind < 2 {
                let idx = if p.chance(1, 8) { 2 } else { 1 };
                let d = *p.pick(&digs);
                if idx == 1 { (format!("1-{}", d), String::new()) } else { (format!("2-{}_{}", d, "abc1234"), String::new()) }
            } else if kind < 9 {
                let par = p.pick(&nodes).0.clone();
                let pr = Revision::from(&par).unwrap();
                let d = *p.pick(&digs);
                let c = match d {
                    "d" => Revision::new_deleted(&pr),
                    "r" => Revision::new_resolved(&pr),
                    _ => Revision::new_updated(d, &pr),
                };
                (c.to_string(), par)
            } else {
                // dangling parent, index far away (decimal length boundary)
                let idx = *p.pick(&[3u32, 9, 10, 11, 100]);
                let par = format!("{}-{}_{}", idx, p.pick(&digs), "fff0000");
                let pr = Revision::from(&par).unwrap();
                (Revision::new_updated(*p.pick(&digs), &pr).to_string(), par)
            };
            if !nodes.iter().any(|x| x.0 == cand.0) {
                nodes.push(cand);
            }
        }
        let entries: Vec<Value> = nodes
            .iter()
            .map(|(r, par)| {
                if !par.is_empty() {
                    tables.rev(par);
                }
                json!({"rev": tables.rev(r), "par": par, "st": false})
            })
            .collect();
        // insertion orders: all when small, else a sample
        let mut orders: Vec<Vec<usize>> = vec![];
        let k = nodes.len();
        if k <= 4 {
            let mut idx: Vec<usize> = (0..k).collect();
            permute(&mut idx, 0, &mut orders);
        } else {
            for _ in 0..24 {
                let mut idx: Vec<usize> = (0..k).collect();
                p.shuffle(&mut idx);
                orders.push(idx);
            }
        }
        for (oi, ord) in orders.iter().enumerate() {
            let via_add = oi % 2 == 0;
            let r = catch_unwind(AssertUnwindSafe(|| {
                let mut t = RevisionTree::new();
                for &i in ord {
                    let rev = Revision::from(&nodes[i].0).unwrap();
                    let par = if nodes[i].1.is_empty() { None } else { Some(Revision::from(&nodes[i].1).unwrap()) };
                    if via_add {
                        t.add(rev, par, false);
                    } else {
                        t.unvalidated_add(rev, par, false);
                    }
                }
                if !via_add {
                    t.validate();
                }
                let leafs: Vec<String> = t.get_leafs().iter().map(|r| r.to_string()).collect();
                let w = t.get_winner().map(|r| r.to_string()).unwrap_or_default();
                (leafs, w)
            }));
            match r {
                Ok((leafs, w)) => out.put(json!({"op": "Tree", "shape": shape, "entries": entries, "order": ord, "via": if via_add { "add" } else { "bulk" },
                    "leafs": leafs, "winner": w, "panic": false})),
                Err(_) => out.put(json!({"op": "Tree", "shape": shape, "entries": entries, "order": ord, "via": "", "leafs": [], "winner": "", "panic": true})),
            }
        }
    }
    (out.finish(), tables)
}

fn permute(idx: &mut Vec<usize>, k: usize, out: &mut Vec<Vec<usize>>) {
    if k == idx.len() {
        out.push(idx.clone());
        return;
    }
    for i in k..idx.len() {
        idx.swap(k, i);
        permute(idx, k + 1, out);
        idx.swap(k, i);
    }
}
