mod fnlevel;
mod gen;
mod hist;
mod jsonx;
mod kv;
mod obs;
mod prng;
mod store;

use serde_json::{json, Value};
use std::collections::{BTreeMap, HashMap};
use std::io::{BufRead, Write};
use std::sync::{Arc, Mutex};
use std::time::Duration;

fn arg(args: &[String], name: &str) -> Option<String> {
    args.iter().position(|a| a == name).and_then(|i| args.get(i + 1).cloned())
}

fn main() {
    let args: Vec<String> = std::env::args().collect();
    // panics inside libmelda are data: keep stderr quiet
    std::panic::set_hook(Box::new(|_| {}));
    match args.get(1).map(|s| s.as_str()) {
        Some("hist") => cmd_hist(&args),
        Some("gen") => cmd_gen(&args),
        Some("fn") => cmd_fn(&args),
        Some("kv") => {
            let out = arg(&args, "--out").expect("--out");
            let tmp = arg(&args, "--tmp").expect("--tmp");
            let seed: u64 = arg(&args, "--seed").and_then(|s| s.parse().ok()).unwrap_or(1);
            let seqs: usize = arg(&args, "--seqs").and_then(|s| s.parse().ok()).unwrap_or(20);
            let ops: usize = arg(&args, "--ops").and_then(|s| s.parse().ok()).unwrap_or(60);
            let shards: usize = arg(&args, "--shards").and_then(|s| s.parse().ok()).unwrap_or(8);
            let n = kv::run_kv(&out, &tmp, seed, seqs, ops, shards);
            println!("{}", json!({"driver": "kv", "events": n}));
        }
        _ => {
            eprintln!("usage: mvh hist|gen ...");
            std::process::exit(2);
        }
    }
}

/// TLC's JSON reader rejects null and non-integer numbers.
fn denull(v: &mut Value) {
    match v {
        Value::Null => *v = Value::from(""),
        Value::Number(n) if !(n.is_i64() || n.is_u64()) => *v = Value::from(n.to_string()),
        Value::Number(n) if n.as_i64().map(|x| x.abs() > 2_000_000_000).unwrap_or(true) => *v = Value::from(n.to_string()),
        Value::Array(a) => a.iter_mut().for_each(denull),
        Value::Object(o) => o.values_mut().for_each(denull),
        _ => {}
    }
}

fn write_revs(path: &str, tables: &obs::Tables) {
    let mut f = std::io::BufWriter::new(std::fs::File::create(path).unwrap());
    writeln!(f, "{}", json!({"rev": "%00none", "idx": 0, "dig": "", "kind": "x", "tail": "", "tailof": "", "bytes": [], "wf": false})).unwrap();
    for v in tables.revs.values() {
        writeln!(f, "{}", v).unwrap();
    }
    f.flush().unwrap();
}

/// mvh fn <merge|diff|revision|revtree> --out DIR [--size quick|thorough] [--seed S] [--shards N]
fn cmd_fn(args: &[String]) {
    let which = args.get(2).cloned().unwrap_or_default();
    let out = arg(args, "--out").expect("--out");
    let thorough = arg(args, "--size").map(|s| s == "thorough").unwrap_or(false);
    let seed: u64 = arg(args, "--seed").and_then(|s| s.parse().ok()).unwrap_or(1);
    let shards: usize = arg(args, "--shards").and_then(|s| s.parse().ok()).unwrap_or(8);
    std::fs::create_dir_all(&out).unwrap();
    let empty = obs::Tables::default();
    let n = match which.as_str() {
        "merge" => {
            let n = if thorough { fnlevel::fn_merge(&out, 5, 5, shards) } else { fnlevel::fn_merge(&out, 4, 4, shards) };
            write_revs(&format!("{}/revs.ndjson", out), &empty);
            n
        }
        "diff" => {
            let n = if thorough { fnlevel::fn_diff(&out, 3, 4, shards, 7) } else { fnlevel::fn_diff(&out, 3, 3, shards, 5) };
            write_revs(&format!("{}/revs.ndjson", out), &empty);
            n
        }
        "revision" => {
            let (n, t) = fnlevel::fn_revision(&out, shards, seed, if thorough { 400_000 } else { 40_000 });
            write_revs(&format!("{}/revs.ndjson", out), &t);
            n
        }
        "revtree" => {
            let (n, t) = fnlevel::fn_revtree(&out, shards, seed, if thorough { 20_000 } else { 1_500 }, if thorough { 6 } else { 5 });
            write_revs(&format!("{}/revs.ndjson", out), &t);
            n
        }
        _ => {
            eprintln!("unknown fn driver");
            std::process::exit(2);
        }
    };
    println!("{}", json!({"driver": which, "events": n}));
}

fn cmd_gen(args: &[String]) {
    let seed: u64 = arg(args, "--seed").and_then(|s| s.parse().ok()).unwrap_or(1);
    let count: u64 = arg(args, "--count").and_then(|s| s.parse().ok()).unwrap_or(10);
    let base: u64 = arg(args, "--base").and_then(|s| s.parse().ok()).unwrap_or(0);
    let profile = arg(args, "--profile").unwrap_or_else(|| "random".into());
    let out = std::io::stdout();
    let mut w = out.lock();
    for i in 0..count {
        let spec = hist::random_spec(base + i, seed, &profile);
        writeln!(w, "{}", spec).unwrap();
    }
}

fn write_bundle(out_dir: &str, nb: usize, chunk: &[hist::RunResult]) -> Vec<(u64, Value)> {
    let mut summary: Vec<(u64, Value)> = vec![];
    {
        let mut items: BTreeMap<String, Value> = BTreeMap::new();
        let mut revs: BTreeMap<String, Value> = BTreeMap::new();
        let base = format!("{}/b{:04}", out_dir, nb);
        let mut tf = std::io::BufWriter::new(std::fs::File::create(format!("{}.trace.ndjson", base)).unwrap());
        let mut nev = 0;
        for r in chunk.iter() {
            let t = r.tables.lock().unwrap_or_else(|e| e.into_inner());
            for (k, v) in &t.items {
                items.insert(k.clone(), v.clone());
            }
            for (k, v) in &t.revs {
                revs.insert(k.clone(), v.clone());
            }
            for e in &r.events {
                let mut e = e.clone();
                denull(&mut e);
                writeln!(tf, "{}", e).unwrap();
                nev += 1;
            }
            summary.push((r.id, json!({"run": r.id, "events": r.events.len(), "timeout": r.timeout, "ms": r.wall_ms as u64, "bundle": nb})));
        }
        tf.flush().unwrap();
        let mut f = std::io::BufWriter::new(std::fs::File::create(format!("{}.items.ndjson", base)).unwrap());
        // TLC cannot read an empty ndjson file into a sequence: always write one dummy record
        writeln!(f, "{}", json!({"tok": "%00none", "key": "", "kind": "other", "name": "", "hashok": false, "wf": false, "sha": "", "idx": 0, "parents": [], "packs": [], "changes": [], "objs": [], "info": "", "len": 0})).unwrap();
        for v in items.values() {
            writeln!(f, "{}", v).unwrap();
        }
        f.flush().unwrap();
        let mut f = std::io::BufWriter::new(std::fs::File::create(format!("{}.revs.ndjson", base)).unwrap());
        writeln!(f, "{}", json!({"rev": "%00none", "idx": 0, "dig": "", "kind": "x", "tail": "", "tailof": "", "bytes": [], "wf": false})).unwrap();
        for v in revs.values() {
            writeln!(f, "{}", v).unwrap();
        }
        f.flush().unwrap();
        let _ = nev;
    }
    summary
}

fn cmd_hist(args: &[String]) {
    let specs_path = arg(args, "--specs").expect("--specs");
    let out_dir = arg(args, "--out").expect("--out");
    let jobs: usize = arg(args, "--jobs").and_then(|s| s.parse().ok()).unwrap_or(8);
    let timeout_ms: u64 = arg(args, "--timeout-ms").and_then(|s| s.parse().ok()).unwrap_or(10_000);
    let bundle: usize = arg(args, "--bundle").and_then(|s| s.parse().ok()).unwrap_or(20);
    std::fs::create_dir_all(&out_dir).unwrap();
    let f = std::fs::File::open(&specs_path).expect("specs file");
    let specs: Vec<Value> = std::io::BufReader::new(f)
        .lines()
        .filter_map(|l| l.ok())
        .filter(|l| !l.trim().is_empty())
        .map(|l| serde_json::from_str(&l).expect("spec json"))
        .collect();
    // Runs are handed out in file order; a bundle (`bundle` consecutive runs) is written, and its recorded
    // events dropped, as soon as its last run finishes: memory stays bounded however many runs a tier asks for.
    let n = specs.len();
    let queue = Arc::new(Mutex::new(specs.into_iter().enumerate().rev().collect::<Vec<_>>()));
    let pending = Arc::new(Mutex::new(HashMap::<usize, Vec<hist::RunResult>>::new()));
    let summary = Arc::new(Mutex::new(Vec::<(u64, Value)>::new()));
    let mut handles = vec![];
    for _ in 0..jobs {
        let q = queue.clone();
        let pend = pending.clone();
        let summ = summary.clone();
        let out_dir = out_dir.clone();
        handles.push(std::thread::spawn(move || loop {
            let spec = { q.lock().unwrap().pop() };
            match spec {
                Some((pos, s)) => {
                    let r = hist::run_spec(s, Duration::from_millis(timeout_ms));
                    let b = pos / bundle;
                    let expect = std::cmp::min(bundle, n - b * bundle);
                    let done = {
                        let mut p = pend.lock().unwrap();
                        let v = p.entry(b).or_default();
                        v.push(r);
                        if v.len() == expect { p.remove(&b) } else { None }
                    };
                    if let Some(mut runs) = done {
                        runs.sort_by_key(|r| r.id);
                        let rows = write_bundle(&out_dir, b, &runs);
                        summ.lock().unwrap().extend(rows);
                    }
                }
                None => break,
            }
        }));
    }
    for h in handles {
        h.join().unwrap();
    }
    let nb = (n + bundle - 1) / bundle;
    let mut rows = std::mem::take(&mut *summary.lock().unwrap());
    rows.sort_by_key(|r| r.0);
    let summary: Vec<Value> = rows.into_iter().map(|r| r.1).collect();
    std::fs::write(format!("{}/summary.json", out_dir), serde_json::to_string(&json!({"bundles": nb, "runs": summary})).unwrap()).unwrap();
    // abandoned (hung) worker threads must not keep the process alive
    std::process::exit(0);
}
