// Byte-level helpers that share no code with libmelda: hashing, a string-aware JSON
// splitter, ASCII tokens for TLC, canonical digests.  (Trusted base of the harness.)
use serde_json::{Map, Value};
use sha2::{Digest, Sha256};

pub fn sha(bytes: &[u8]) -> String {
    let mut h = Sha256::new();
    h.update(bytes);
    hex::encode(h.finalize())
}

pub fn sha_str(s: &str) -> String {
    sha(s.as_bytes())
}

/// ASCII token for arbitrary text (TLC's JSON reader maps non-ASCII to '?').
/// Unreserved characters are kept, everything else is %XX per UTF-8 byte.
pub fn tok(s: &str) -> String {
    let mut out = String::with_capacity(s.len());
    for b in s.bytes() {
        let c = b as char;
        if c.is_ascii_alphanumeric() || c == '-' || c == '_' || c == '.' {
            out.push(c);
        } else {
            out.push_str(&format!("%{:02X}", b));
        }
    }
    if out.is_empty() {
        out.push_str("%00empty");
    }
    out
}

/// Canonical text of a JSON value (serde_json Map is a BTreeMap here: keys sorted).
pub fn canon(v: &Value) -> String {
    serde_json::to_string(v).unwrap()
}

pub fn canon_sha(v: &Value) -> String {
    sha_str(&canon(v))
}

/// Splits the top-level elements of a JSON array given as bytes, string- and escape-aware.
/// Returns byte ranges (start, end) of every element, or None if the text is not an array.
pub fn split_array(data: &[u8]) -> Option<Vec<(usize, usize)>> {
    let mut i = skip_ws(data, 0);
    if i >= data.len() || data[i] != b'[' {
        return None;
    }
    i += 1;
    let mut out = vec![];
    loop {
        i = skip_ws(data, i);
        if i >= data.len() {
            return None;
        }
        if data[i] == b']' {
            i += 1;
            break;
        }
        let start = i;
        let end = skip_value(data, i)?;
        out.push((start, end));
        i = skip_ws(data, end);
        if i >= data.len() {
            return None;
        }
        if data[i] == b',' {
            i += 1;
        } else if data[i] == b']' {
            i += 1;
            break;
        } else {
            return None;
        }
    }
    if skip_ws(data, i) != data.len() {
        return None;
    }
    Some(out)
}

/// Raw text of the member `key` of a top-level JSON object, string-aware.
pub fn raw_member<'a>(data: &'a [u8], key: &str) -> Option<&'a [u8]> {
    let mut i = skip_ws(data, 0);
    if i >= data.len() || data[i] != b'{' {
        return None;
    }
    i += 1;
    loop {
        i = skip_ws(data, i);
        if i >= data.len() {
            return None;
        }
        if data[i] == b'}' {
            return None;
        }
        if data[i] != b'"' {
            return None;
        }
        let kend = skip_string(data, i)?;
        let k: Option<String> = serde_json::from_slice(&data[i..kend]).ok();
        i = skip_ws(data, kend);
        if i >= data.len() || data[i] != b':' {
            return None;
        }
        i = skip_ws(data, i + 1);
        let vend = skip_value(data, i)?;
        if k.as_deref() == Some(key) {
            return Some(&data[i..vend]);
        }
        i = skip_ws(data, vend);
        if i < data.len() && data[i] == b',' {
            i += 1;
        } else {
            return None;
        }
    }
}

fn skip_ws(d: &[u8], mut i: usize) -> usize {
    while i < d.len() && (d[i] == b' ' || d[i] == b'\n' || d[i] == b'\r' || d[i] == b'\t') {
        i += 1;
    }
    i
}

fn skip_string(d: &[u8], mut i: usize) -> Option<usize> {
    // d[i] == '"'
    i += 1;
    while i < d.len() {
        match d[i] {
            b'\\' => i += 2,
            b'"' => return Some(i + 1),
            _ => i += 1,
        }
    }
    None
}

fn skip_value(d: &[u8], i: usize) -> Option<usize> {
    if i >= d.len() {
        return None;
    }
    match d[i] {
        b'"' => skip_string(d, i),
        b'{' | b'[' => {
            let mut depth = 0i64;
            let mut j = i;
            while j < d.len() {
                match d[j] {
                    b'"' => {
                        j = skip_string(d, j)?;
                        continue;
                    }
                    b'{' | b'[' => depth += 1,
                    b'}' | b']' => {
                        depth -= 1;
                        if depth == 0 {
                            return Some(j + 1);
                        }
                    }
                    _ => {}
                }
                j += 1;
            }
            None
        }
        _ => {
            let mut j = i;
            while j < d.len() && !matches!(d[j], b',' | b']' | b'}' | b' ' | b'\n' | b'\r' | b'\t')
            {
                j += 1;
            }
            if j == i {
                None
            } else {
                Some(j)
            }
        }
    }
}

pub fn obj(v: Value) -> Map<String, Value> {
    v.as_object().expect("object literal").clone()
}
