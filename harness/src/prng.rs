// Small deterministic PRNG (splitmix64); no external crate so that the harness adds nothing
// to libmelda's dependency graph.
#[derive(Clone)]
pub struct Prng(u64);

impl Prng {
    pub fn new(seed: u64) -> Prng {
        Prng(seed.wrapping_add(0x9E3779B97F4A7C15))
    }
    pub fn next(&mut self) -> u64 {
        self.0 = self.0.wrapping_add(0x9E3779B97F4A7C15);
        let mut z = self.0;
        z = (z ^ (z >> 30)).wrapping_mul(0xBF58476D1CE4E5B9);
        z = (z ^ (z >> 27)).wrapping_mul(0x94D049BB133111EB);
        z ^ (z >> 31)
    }
    pub fn below(&mut self, n: usize) -> usize {
        if n == 0 {
            0
        } else {
            (self.next() % (n as u64)) as usize
        }
    }
    pub fn chance(&mut self, num: u64, den: u64) -> bool {
        self.next() % den < num
    }
    pub fn pick<'a, T>(&mut self, v: &'a [T]) -> &'a T {
        &v[self.below(v.len())]
    }
    pub fn shuffle<T>(&mut self, v: &mut [T]) {
        for i in (1..v.len()).rev() {
            let j = self.below(i + 1);
            v.swap(i, j);
        }
    }
    pub fn fork(&mut self) -> Prng {
        Prng::new(self.next())
    }
}
