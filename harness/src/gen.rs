// Seeded generator of well-formed documents (C04's input class) and of commit metadata.
//   * root without "_id"; every element of a flattened array is an object with a document-unique
//     string "_id" that does not start with '^' or '!'; no object uses the reserved "#" key;
//   * strings with { } [ ] " \ ! ^ control and non-ASCII characters, empty strings;
//     integers across the i64/u64 range; floats (when enabled); nesting; flattened keys that
//     appear, disappear and change kind; objects moving between flattened arrays.
use crate::obs::FLAT;
use crate::prng::Prng;
use serde_json::{json, Map, Number, Value};
use std::collections::BTreeSet;

#[derive(Clone, Copy)]
pub struct GenCfg {
    pub floats: bool,
    pub nasty: bool,
}

pub const IDS: &[&str] = &[
    "a", "b", "c", "d1", "e-2", "f_3", "x y", "k{", "}z", "q\"q", "b\\s", "\u{e9}t\u{e9}",
    "\u{65e5}\u{672c}", "a@b", "m\u{266D}", "n[0]", "0", "10", "tab\tid", "Z",
];
const KEYS: &[&str] = &["t", "name", "v", "n{", "w}", "data", "\u{fc}ber", "q\"", "s p", "k"];
const FKEYS: &[&str] = &["items\u{266D}", "more\u{266D}", "z\u{266D}", "sub\u{266D}"];
const STRS: &[&str] = &[
    "", "x", "hello world", "{", "}", "{}", "}{", "[", "]", "\"", "\\", "\\\"", "!", "!x", "^", "^a@b",
    "a{b}c", "{\"k\":1}", "\u{221A}", "\u{266D}", "\u{e9}", "\u{1F600}", "\n", "\t\r", "\u{0001}",
    "e", "d", "r", "1-abc", "null", "line1\nline2{", "}}}}", "{{{{", "\"}\"", "\\u0041",
];

pub fn gen_string(p: &mut Prng, cfg: GenCfg) -> String {
    if cfg.nasty && p.chance(2, 3) {
        let mut s = p.pick(STRS).to_string();
        if p.chance(1, 4) {
            let extra: &&str = p.pick(STRS); s.push_str(extra);
        }
        s
    } else {
        format!("s{}", p.below(50))
    }
}

pub fn gen_number(p: &mut Prng, cfg: GenCfg) -> Value {
    match p.below(if cfg.floats { 10 } else { 6 }) {
        0 => json!(p.below(10) as i64),
        1 => json!(-(p.below(1000) as i64)),
        2 => json!(i64::MAX - p.below(3) as i64),
        3 => json!(i64::MIN + p.below(3) as i64),
        4 => json!(u64::MAX - p.below(3) as u64),
        5 => json!(p.next() as i64),
        6 => {
            // random bit pattern
            let f = f64::from_bits(p.next());
            match Number::from_f64(f) {
                Some(n) => Value::Number(n),
                None => json!(0.5),
            }
        }
        7 => {
            let lits = [0.1, 1e-7, 1.5e300, 2.5e-300, -0.0, 0.0, 5e-324, 1.7976931348623157e308, 3.14, 1e21, 123456789.123456789];
            json!(*p.pick(&lits))
        }
        8 => json!((p.below(100000) as f64) / 1000.0),
        _ => {
            let m = (p.next() % 10_000_000_000_000_000) as f64;
            let e = p.below(60) as i32 - 30;
            json!(m * 10f64.powi(e))
        }
    }
}

pub fn gen_scalar(p: &mut Prng, cfg: GenCfg) -> Value {
    match p.below(8) {
        0 | 1 | 2 => Value::from(gen_string(p, cfg)),
        3 | 4 => gen_number(p, cfg),
        5 => json!(p.chance(1, 2)),
        6 => Value::Null,
        _ => json!(p.below(5)),
    }
}

/// Arbitrary JSON without flattened keys, "_id" or "#" members.
pub fn gen_json(p: &mut Prng, cfg: GenCfg, depth: usize) -> Value {
    if depth == 0 || p.chance(3, 5) {
        return gen_scalar(p, cfg);
    }
    if p.chance(1, 2) {
        let n = p.below(4);
        Value::from((0..n).map(|_| gen_json(p, cfg, depth - 1)).collect::<Vec<_>>())
    } else {
        let n = p.below(4);
        let mut m = Map::new();
        for _ in 0..n {
            let k = if cfg.nasty { p.pick(KEYS).to_string() } else { format!("k{}", p.below(5)) };
            m.insert(k, gen_json(p, cfg, depth - 1));
        }
        Value::from(m)
    }
}

pub fn gen_info(p: &mut Prng, cfg: GenCfg, who: &str, counter: u64) -> Map<String, Value> {
    let mut m = Map::new();
    m.insert("author".into(), Value::from(who));
    m.insert("n".into(), json!(counter));
    if p.chance(1, 2) {
        m.insert("note".into(), gen_json(p, cfg, 3));
    }
    if cfg.floats && p.chance(1, 2) {
        m.insert("t".into(), gen_number(p, GenCfg { floats: true, nasty: cfg.nasty }));
    }
    m
}

fn used_ids(v: &Value, out: &mut BTreeSet<String>) {
    match v {
        Value::Object(o) => {
            if let Some(Value::String(s)) = o.get("_id") {
                out.insert(s.clone());
            }
            for x in o.values() {
                used_ids(x, out);
            }
        }
        Value::Array(a) => a.iter().for_each(|x| used_ids(x, out)),
        _ => {}
    }
}

fn fresh_id(p: &mut Prng, used: &mut BTreeSet<String>, universe: usize) -> Option<String> {
    let n = universe.min(IDS.len());
    let start = p.below(n);
    for i in 0..n {
        let id = IDS[(start + i) % n];
        if !used.contains(id) {
            used.insert(id.to_string());
            return Some(id.to_string());
        }
    }
    None
}

fn gen_elem(p: &mut Prng, cfg: GenCfg, used: &mut BTreeSet<String>, universe: usize, depth: usize) -> Option<Value> {
    let id = fresh_id(p, used, universe)?;
    let mut m = Map::new();
    m.insert("_id".into(), Value::from(id));
    let n = p.below(3);
    for _ in 0..n {
        let k = if cfg.nasty { p.pick(KEYS).to_string() } else { "v".to_string() };
        m.insert(k, gen_json(p, cfg, 2));
    }
    if depth > 0 && p.chance(1, 6) {
        let fk = p.pick(FKEYS).to_string();
        let v = gen_flat_value(p, cfg, used, universe, depth - 1);
        m.insert(fk, v);
    }
    Some(Value::from(m))
}

fn gen_flat_value(p: &mut Prng, cfg: GenCfg, used: &mut BTreeSet<String>, universe: usize, depth: usize) -> Value {
    match p.below(10) {
        0 => gen_scalar(p, cfg),
        1 | 2 => {
            // tracked object directly under a flattened key (identifier derived from the path, or explicit)
            let mut m = Map::new();
            if p.chance(1, 3) {
                if let Some(id) = fresh_id(p, used, universe) {
                    m.insert("_id".into(), Value::from(id));
                }
            }
            m.insert("v".into(), gen_json(p, cfg, 2));
            Value::from(m)
        }
        _ => {
            let n = p.below(4);
            let mut a = vec![];
            for _ in 0..n {
                if let Some(e) = gen_elem(p, cfg, used, universe, depth) {
                    a.push(e);
                }
            }
            Value::from(a)
        }
    }
}

pub fn fresh_doc(p: &mut Prng, cfg: GenCfg, universe: usize) -> Map<String, Value> {
    let mut used = BTreeSet::new();
    let mut m = Map::new();
    m.insert("title".into(), gen_scalar(p, cfg));
    if p.chance(1, 2) {
        m.insert("meta".into(), gen_json(p, cfg, 3));
    }
    let nf = 1 + p.below(2);
    for i in 0..nf {
        let v = gen_flat_value(p, cfg, &mut used, universe, 1);
        m.insert(FKEYS[i].to_string(), v);
    }
    m
}

// ---- mutation: collect paths to tracked objects and flattened arrays

#[derive(Clone, Debug)]
enum Seg {
    Key(String),
    Idx(usize),
}

fn collect(v: &Value, path: &mut Vec<Seg>, flat: bool, objs: &mut Vec<Vec<Seg>>, arrs: &mut Vec<Vec<Seg>>) {
    match v {
        Value::Object(o) if flat => {
            objs.push(path.clone());
            for (k, x) in o {
                if k.ends_with(FLAT) {
                    path.push(Seg::Key(k.clone()));
                    if x.is_array() {
                        arrs.push(path.clone());
                    }
                    collect(x, path, true, objs, arrs);
                    path.pop();
                }
            }
        }
        Value::Array(a) if flat => {
            for (i, x) in a.iter().enumerate() {
                path.push(Seg::Idx(i));
                collect(x, path, true, objs, arrs);
                path.pop();
            }
        }
        _ => {}
    }
}

fn at<'a>(v: &'a mut Value, path: &[Seg]) -> &'a mut Value {
    let mut cur = v;
    for s in path {
        cur = match s {
            Seg::Key(k) => cur.get_mut(k.as_str()).unwrap(),
            Seg::Idx(i) => cur.get_mut(*i).unwrap(),
        };
    }
    cur
}

fn strip_root_id(mut m: Map<String, Value>) -> Map<String, Value> {
    m.remove("_id");
    m
}

/// Applies 1..3 random edits to `doc` (a document read back from a replica, or any well-formed one).
pub fn mutate_doc(p: &mut Prng, cfg: GenCfg, doc: &Map<String, Value>, universe: usize) -> Map<String, Value> {
    let mut root = Value::from(strip_root_id(doc.clone()));
    let n = 1 + p.below(3);
    for _ in 0..n {
        let mut used = BTreeSet::new();
        used_ids(&root, &mut used);
        let mut objs = vec![];
        let mut arrs = vec![];
        collect(&root, &mut vec![], true, &mut objs, &mut arrs);
        match p.below(12) {
            0 | 1 => {
                // set / replace a plain field of a tracked object
                let path = p.pick(&objs).clone();
                let k = if cfg.nasty { p.pick(KEYS).to_string() } else { "v".to_string() };
                let val = gen_json(p, cfg, 2);
                if let Some(o) = at(&mut root, &path).as_object_mut() {
                    o.insert(k, val);
                }
            }
            2 => {
                // remove a plain field
                let path = p.pick(&objs).clone();
                if let Some(o) = at(&mut root, &path).as_object_mut() {
                    let ks: Vec<String> = o.keys().filter(|k| *k != "_id" && !k.ends_with(FLAT)).cloned().collect();
                    if !ks.is_empty() {
                        let k = p.pick(&ks).clone();
                        o.remove(&k);
                    }
                }
            }
            3 | 4 if !arrs.is_empty() => {
                // insert a new element
                let path = p.pick(&arrs).clone();
                if let Some(e) = gen_elem(p, cfg, &mut used, universe, 1) {
                    let a = at(&mut root, &path).as_array_mut().unwrap();
                    let pos = p.below(a.len() + 1);
                    a.insert(pos, e);
                }
            }
            5 if !arrs.is_empty() => {
                // remove an element
                let path = p.pick(&arrs).clone();
                let a = at(&mut root, &path).as_array_mut().unwrap();
                if !a.is_empty() {
                    let pos = p.below(a.len());
                    a.remove(pos);
                }
            }
            6 if !arrs.is_empty() => {
                // reorder
                let path = p.pick(&arrs).clone();
                let a = at(&mut root, &path).as_array_mut().unwrap();
                if a.len() > 1 {
                    match p.below(3) {
                        0 => a.reverse(),
                        1 => {
                            let i = p.below(a.len());
                            let e = a.remove(i);
                            let j = p.below(a.len() + 1);
                            a.insert(j, e);
                        }
                        _ => {
                            let i = p.below(a.len());
                            let j = p.below(a.len());
                            a.swap(i, j);
                        }
                    }
                }
            }
            7 if arrs.len() > 1 => {
                // move an element between two flattened arrays
                let from = p.pick(&arrs).clone();
                let to = p.pick(&arrs).clone();
                let is_prefix = |a: &Vec<Seg>, b: &Vec<Seg>| {
                    a.len() <= b.len() && format!("{:?}", &b[..a.len()]) == format!("{:?}", a)
                };
                if !is_prefix(&from, &to) && !is_prefix(&to, &from) {
                    let a = at(&mut root, &from).as_array_mut().unwrap();
                    if !a.is_empty() {
                        let i = p.below(a.len());
                        let e = a.remove(i);
                        let b = at(&mut root, &to).as_array_mut().unwrap();
                        let j = p.below(b.len() + 1);
                        b.insert(j, e);
                    }
                }
            }
            8 => {
                // add or change (kind of) a flattened key on a tracked object
                let path = p.pick(&objs).clone();
                let fk = p.pick(FKEYS).to_string();
                if let Some(o) = at(&mut root, &path).as_object_mut() {
                    // identifiers under the replaced value become free again
                    o.remove(&fk);
                }
                let mut used = BTreeSet::new();
                used_ids(&root, &mut used);
                let val = gen_flat_value(p, cfg, &mut used, universe, 1);
                if let Some(o) = at(&mut root, &path).as_object_mut() {
                    o.insert(fk, val);
                }
            }
            9 => {
                // drop a flattened key
                let path = p.pick(&objs).clone();
                if let Some(o) = at(&mut root, &path).as_object_mut() {
                    let ks: Vec<String> = o.keys().filter(|k| k.ends_with(FLAT)).cloned().collect();
                    if !ks.is_empty() {
                        let k = p.pick(&ks).clone();
                        o.remove(&k);
                    }
                }
            }
            10 if !arrs.is_empty() => {
                // empty an array, or refill it
                let path = p.pick(&arrs).clone();
                let len = at(&mut root, &path).as_array().unwrap().len();
                if len > 0 {
                    at(&mut root, &path).as_array_mut().unwrap().clear();
                } else {
                    for _ in 0..(1 + p.below(3)) {
                        if let Some(e) = gen_elem(p, cfg, &mut used, universe, 0) {
                            at(&mut root, &path).as_array_mut().unwrap().push(e);
                        }
                    }
                }
            }
            _ => {
                let k = if p.chance(1, 2) { "title".to_string() } else { "meta".to_string() };
                let val = gen_json(p, cfg, 3);
                root.as_object_mut().unwrap().insert(k, val);
            }
        }
    }
    root.as_object().unwrap().clone()
}

/// Array-focused edit of a small document: {"title": n, "items♭": [...], "more♭": [...]} over a tiny
/// identifier universe, so that concurrent replicas often apply the same kind of edit.
pub fn mutate_arrays(p: &mut Prng, doc: &Map<String, Value>, universe: usize) -> Map<String, Value> {
    mutate_arrays_kind(p, doc, universe, None)
}

/// `forced`: the kind of array edit (0 drop head, 1 drop tail, 2 append fresh, 3 prepend fresh, 4 rotate,
/// 5 change a member, 6 move to the other array) applied to the first array; None = seeded choice.
pub fn mutate_arrays_kind(p: &mut Prng, doc: &Map<String, Value>, universe: usize, forced: Option<usize>) -> Map<String, Value> {
    let mut d = doc.clone();
    d.remove("_id");
    let keys = ["items\u{266D}", "more\u{266D}"];
    for k in keys.iter() {
        // a key that vanished (or changed kind) comes back as an array only sometimes
        if !d.get(*k).map(|v| v.is_array()).unwrap_or(false) && (d.is_empty() || p.chance(1, 2)) {
            d.insert(k.to_string(), Value::from(Vec::<Value>::new()));
        }
    }
    if forced.is_none() && p.chance(1, 10) {
        // the key disappears: its members may stay alive elsewhere
        let k = keys[p.below(2)];
        if p.chance(1, 2) {
            if let Some(Value::Array(a)) = d.get(k).cloned() {
                let other = if k == keys[0] { keys[1] } else { keys[0] };
                if let Some(Value::Array(b)) = d.get_mut(other) {
                    b.extend(a);
                }
            }
        }
        d.remove(k);
        return d;
    }
    for k in keys.iter() {
        if !d.get(*k).map(|v| v.is_array()).unwrap_or(false) {
            d.insert(k.to_string(), Value::from(Vec::<Value>::new()));
        }
    }
    let mut used = BTreeSet::new();
    used_ids(&Value::from(d.clone()), &mut used);
    let k = keys[if forced.is_some() || p.chance(3, 4) { 0 } else { 1 }];
    let other = if k == keys[0] { keys[1] } else { keys[0] };
    let kind = match forced { Some(f) => f, None => p.below(8) };
    let mut moved: Option<Value> = None;
    {
        let a = d.get_mut(k).unwrap().as_array_mut().unwrap();
        match kind {
            0 if !a.is_empty() => {
                a.remove(0);
            }
            1 if !a.is_empty() => {
                a.pop();
            }
            2 | 3 => {
                if let Some(id) = fresh_id(p, &mut used, universe.min(5)) {
                    let e = json!({"_id": id, "v": p.below(3)});
                    if kind == 2 { a.push(e) } else { a.insert(0, e) }
                }
            }
            4 if a.len() > 1 => {
                let e = a.remove(0);
                a.push(e);
            }
            5 if !a.is_empty() => {
                let i = p.below(a.len());
                if let Some(o) = a[i].as_object_mut() {
                    o.insert("v".into(), json!(p.below(3)));
                }
            }
            6 if !a.is_empty() => {
                let i = p.below(a.len());
                moved = Some(a.remove(i));
            }
            _ => {
                d.insert("title".into(), json!(p.below(3)));
                return d;
            }
        }
    }
    if let Some(e) = moved {
        d.get_mut(other).unwrap().as_array_mut().unwrap().push(e);
    }
    d
}
