// C17: the write-once key/value contract, exercised on every backend stack that runs offline.
// One seeded operation sequence is applied to all stacks in lock-step; every call is logged with
// its arguments and result; spec/KVTrace.tla replays the log against the KVStore model.
use crate::prng::Prng;
use melda::adapter::Adapter;
use melda::brotliadapter::BrotliAdapter;
use melda::filesystemadapter::FilesystemAdapter;
use melda::flate2adapter::Flate2Adapter;
use melda::memoryadapter::MemoryAdapter;
use melda::sqliteadapter::SqliteAdapter;
use serde_json::{json, Value};
use std::io::Write;
use std::panic::{catch_unwind, AssertUnwindSafe};
use std::sync::{Arc, RwLock};

type Dyn = Arc<RwLock<Box<dyn Adapter>>>;

fn dynbox(a: Box<dyn Adapter>) -> Dyn {
    Arc::new(RwLock::new(a))
}

pub const STACKS: &[&str] = &[
    "memory", "memory+flate", "memory+brotli", "fs", "fs+flate", "fs+brotli", "sqlite", "sqlite+flate",
    "sqlite+brotli", "sqlitemem", "sqlitemem+flate", "memory+brotli+flate",
];

pub fn persistent(stack: &str) -> bool {
    stack.starts_with("fs") || (stack.starts_with("sqlite") && !stack.starts_with("sqlitemem"))
}

/// Builds a backend stack; `dir` is the private directory of this (run, stack).
pub fn make_stack(stack: &str, dir: &str) -> Result<Box<dyn Adapter>, String> {
    let parts: Vec<&str> = stack.split('+').collect();
    let base: Box<dyn Adapter> = match parts[0] {
        "memory" => Box::new(MemoryAdapter::new()),
        "fs" => Box::new(FilesystemAdapter::new(&format!("{}/fs", dir)).map_err(|e| e.to_string())?),
        "sqlite" => {
            std::fs::create_dir_all(dir).map_err(|e| e.to_string())?;
            Box::new(SqliteAdapter::new(&format!("{}/db.sqlite", dir)))
        }
        "sqlitemem" => Box::new(SqliteAdapter::new_in_memory()),
        _ => return Err("unknown base".into()),
    };
    let mut cur = base;
    for w in &parts[1..] {
        cur = match *w {
            "flate" => Box::new(Flate2Adapter::new(dynbox(cur))),
            "brotli" => Box::new(BrotliAdapter::new(dynbox(cur))),
            _ => return Err("unknown wrapper".into()),
        };
    }
    Ok(cur)
}

const KEYS: &[&str] = &[
    "ab", "abc", "ab.delta", "1-ab.delta", "xy.pack", "xy", "k1.flate", "k1", "k2.brotli", "q.delta.flate",
    "delta", "zz.delta", "zz.pack", "pack", "ab.delta.delta", "Ab", "a_b-c", "0123456789abcdef.pack",
];
const EXTS: &[&str] = &["", ".delta", ".pack", ".flate", ".brotli", "a", "ck", "delta", "b.delta"];

fn bytes_of(p: &mut Prng) -> Vec<u8> {
    let n = match p.below(6) {
        0 => 0,
        1 => 1,
        _ => 2 + p.below(22),
    };
    (0..n).map(|_| if p.chance(1, 4) { *p.pick(&[0u8, 255, b'{', b'}', b'"', b'\n']) } else { (p.next() % 256) as u8 }).collect()
}

pub const CHUNK: usize = 4096;
/// Large incompressible values are sequences of 4 KiB chunks; chunk `id` holds pseudo-random bytes
/// seeded by the id.  In the trace a chunked value is the sequence of 1000+id (bytes are < 256).
fn chunk_bytes(id: u64) -> Vec<u8> {
    let mut p = Prng::new(0xC0FFEE ^ id);
    (0..CHUNK).map(|_| (p.next() % 256) as u8).collect()
}
fn expand(ids: &[u64]) -> Vec<u8> {
    ids.iter().flat_map(|i| chunk_bytes(*i)).collect()
}
/// Encodes returned bytes: as chunk ids when they are a whole number of known chunks, else raw.
fn encode(bytes: &[u8], chunked: bool) -> Vec<u64> {
    if chunked && !bytes.is_empty() && bytes.len() % CHUNK == 0 {
        let mut out = vec![];
        for b in bytes.chunks(CHUNK) {
            match (0..32u64).find(|i| chunk_bytes(*i) == b) {
                Some(i) => out.push(1000 + i),
                None => return vec![999_999, bytes.len() as u64], // not the bytes that were written
            }
        }
        out
    } else if chunked {
        vec![999_998, bytes.len() as u64]
    } else {
        bytes.iter().map(|b| *b as u64).collect()
    }
}

fn outcome<T>(r: std::thread::Result<anyhow::Result<T>>) -> (String, Option<T>) {
    match r {
        Ok(Ok(v)) => ("ok".into(), Some(v)),
        Ok(Err(_)) => ("err".into(), None),
        Err(_) => ("panic".into(), None),
    }
}

pub fn run_kv(out_dir: &str, tmp_root: &str, seed: u64, nseq: usize, nops: usize, shards: usize) -> u64 {
    std::fs::create_dir_all(out_dir).unwrap();
    let mut files: Vec<std::io::BufWriter<std::fs::File>> = (0..shards)
        .map(|i| std::io::BufWriter::new(std::fs::File::create(format!("{}/kv{:03}.kv.ndjson", out_dir, i)).unwrap()))
        .collect();
    let mut count = 0u64;
    for sq in 0..nseq {
        let f = &mut files[sq % shards];
        let mut p = Prng::new(seed.wrapping_mul(1_000_003).wrapping_add(sq as u64));
        let nkeys = 6 + p.below(KEYS.len() - 6);
        let mut keys: Vec<&str> = KEYS.to_vec();
        p.shuffle(&mut keys);
        keys.truncate(nkeys);
        let dirs: Vec<String> = STACKS.iter().map(|s| format!("{}/kv_{}_{}_{}", tmp_root, seed, sq, s.replace('+', "_"))).collect();
        let mut stacks: Vec<Option<Box<dyn Adapter>>> = vec![];
        let mut opened = vec![];
        for (i, s) in STACKS.iter().enumerate() {
            let _ = std::fs::remove_dir_all(&dirs[i]);
            let r = catch_unwind(AssertUnwindSafe(|| make_stack(s, &dirs[i])));
            match r {
                Ok(Ok(a)) => {
                    stacks.push(Some(a));
                    opened.push("ok");
                }
                Ok(Err(_)) => {
                    stacks.push(None);
                    opened.push("err");
                }
                Err(_) => {
                    stacks.push(None);
                    opened.push("panic");
                }
            }
        }
        // persistent backends get a second live handle on the same directory / database: what one handle
        // writes, the other must list and read (two replicas of one process sharing a folder)
        let mut stacks2: Vec<Option<Box<dyn Adapter>>> = vec![];
        for (i, s) in STACKS.iter().enumerate() {
            if persistent(s) && stacks[i].is_some() {
                match catch_unwind(AssertUnwindSafe(|| make_stack(s, &dirs[i]))) {
                    Ok(Ok(a)) => stacks2.push(Some(a)),
                    _ => stacks2.push(None),
                }
            } else {
                stacks2.push(None);
            }
        }
        writeln!(f, "{}", json!({"op": "reset", "seq": sq, "be": "", "stacks": STACKS, "opened": opened})).unwrap();
        count += 1;
        // the driver's own first-write-wins shadow, used only to pick in-range slices
        // (out-of-range slices are outside the contract and are not issued)
        let mut shadow: std::collections::BTreeMap<String, (usize, bool)> = std::collections::BTreeMap::new();
        for _ in 0..nops {
            let mut kind = p.below(100);
            let k = p.pick(&keys).to_string();
            // one write in eight stores a large value of 9..14 chunks (36..56 KiB, incompressible)
            let big: Option<Vec<u64>> = if p.chance(1, 8) { Some((0..(9 + p.below(6))).map(|_| p.below(32) as u64).collect()) } else { None };
            let data = match &big { Some(ids) => expand(ids), None => bytes_of(&mut p) };
            let logged: Vec<u64> = match &big { Some(ids) => ids.iter().map(|i| 1000 + i).collect(), None => data.iter().map(|b| *b as u64).collect() };
            let ext = p.pick(EXTS).to_string();
            let (mut so, mut sl) = (p.below(24), 1 + p.below(24));
            let mut unit = 1usize;
            let mut is_chunked = false;
            if (60..=74).contains(&kind) {
                match shadow.get(&k) {
                    Some(&(len, ch)) if len > 0 => {
                        so = p.below(len);
                        sl = 1 + p.below(len - so);
                        if ch {
                            unit = CHUNK;
                        }
                    }
                    Some(_) => kind = 40, // empty value: no non-empty slice exists, read it whole instead
                    None => {}
                }
            }
            if let Some(&(_, ch)) = shadow.get(&k) {
                is_chunked = ch;
            }
            if kind <= 34 {
                shadow.entry(k.clone()).or_insert((logged.len(), big.is_some()));
            }
            let alt = p.chance(1, 3);       // this call goes through the second handle where there is one
            for (i, s) in STACKS.iter().enumerate() {
                let pick = |st: &Vec<Option<Box<dyn Adapter>>>, st2: &Vec<Option<Box<dyn Adapter>>>| -> bool { alt && st2[i].is_some() && st[i].is_some() };
                let via2 = pick(&stacks, &stacks2);
                let ev = match kind {
                    0..=34 => {
                        let a = match if via2 { &stacks2[i] } else { &stacks[i] } { Some(a) => a, None => continue };
                        let (res, _) = outcome(catch_unwind(AssertUnwindSafe(|| a.write_object(&k, &data))));
                        json!({"op": "Write", "seq": sq, "be": s, "k": k, "v": logged, "res": res})
                    }
                    35..=59 => {
                        let a = match if via2 { &stacks2[i] } else { &stacks[i] } { Some(a) => a, None => continue };
                        let (res, v) = outcome(catch_unwind(AssertUnwindSafe(|| a.read_object(&k, 0, 0))));
                        json!({"op": "Read", "seq": sq, "be": s, "k": k, "res": res, "v": encode(&v.unwrap_or_default(), is_chunked)})
                    }
                    60..=74 => {
                        let a = match if via2 { &stacks2[i] } else { &stacks[i] } { Some(a) => a, None => continue };
                        let (res, v) = outcome(catch_unwind(AssertUnwindSafe(|| a.read_object(&k, so * unit, sl * unit))));
                        json!({"op": "Slice", "seq": sq, "be": s, "k": k, "off": so, "len": sl, "unit": unit, "res": res, "v": encode(&v.unwrap_or_default(), is_chunked)})
                    }
                    75..=92 => {
                        let a = match if via2 { &stacks2[i] } else { &stacks[i] } { Some(a) => a, None => continue };
                        let (res, v) = outcome(catch_unwind(AssertUnwindSafe(|| a.list_objects(&ext))));
                        let mut l = v.unwrap_or_default();
                        l.sort();
                        json!({"op": "List", "seq": sq, "be": s, "ext": ext, "res": res, "list": l})
                    }
                    _ => {
                        if !persistent(s) {
                            continue;
                        }
                        stacks[i] = None; // drop the handles first (closes the database / directory handle)
                        stacks2[i] = None;
                        let r = catch_unwind(AssertUnwindSafe(|| make_stack(s, &dirs[i])));
                        let res = match r {
                            Ok(Ok(a)) => {
                                stacks[i] = Some(a);
                                if let Ok(Ok(b)) = catch_unwind(AssertUnwindSafe(|| make_stack(s, &dirs[i]))) {
                                    stacks2[i] = Some(b);
                                }
                                "ok"
                            }
                            Ok(Err(_)) => "err",
                            Err(_) => "panic",
                        };
                        json!({"op": "Reopen", "seq": sq, "be": s, "res": res})
                    }
                };
                writeln!(f, "{}", ev).unwrap();
                count += 1;
            }
        }
        drop(stacks);
        drop(stacks2);
        for d in &dirs {
            let _ = std::fs::remove_dir_all(d);
        }
    }
    for f in files.iter_mut() {
        f.flush().unwrap();
    }
    let _ = Value::Null;
    count
}
