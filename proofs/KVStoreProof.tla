--------------------------- MODULE KVStoreProof ---------------------------
(***************************************************************************)
(* Unbounded (TLAPS) proofs for the write-once store model KVStoreMC.tla:  *)
(* for every set of keys and values, the store always holds the value of   *)
(* the first write of each key, and it only grows (the design-level part   *)
(* of C11 / C17 that TLC checks for three keys and two values).            *)
(* Checked with: tlapm -I ../spec KVStoreProof.tla                         *)
(***************************************************************************)
EXTENDS KVStoreMC, TLAPS

Inv == kv = first

THEOREM FirstWins == Spec => []FirstWriteWins
<1>1. Init => Inv
  BY DEF Init, Inv
<1>2. Inv /\ [Next]_<<kv, first>> => Inv'
  BY DEF Inv, Next, Write
<1>3. Inv => FirstWriteWins
  BY DEF Inv, FirstWriteWins
<1>. QED
  BY <1>1, <1>2, <1>3, PTL DEF Spec

Grow == DOMAIN kv \subseteq DOMAIN kv' /\ \A k \in DOMAIN kv : kv'[k] = kv[k]

LEMMA WriteGrows == ASSUME NEW k, NEW v, Write(k, v) PROVE Grow
<1>1. CASE k \in DOMAIN kv
  BY <1>1 DEF Write, Grow
<1>2. CASE k \notin DOMAIN kv
  <2>1. kv' = [x \in {k} \cup DOMAIN kv |-> IF x \in {k} THEN v ELSE kv[x]]
    BY <1>2 DEF Write, :>, @@
  <2>. QED
    BY <2>1, <1>2 DEF Grow
<1>. QED
  BY <1>1, <1>2

THEOREM Grows == Spec => AppendOnly
<1>1. Next => Grow
  BY WriteGrows DEF Next
<1>2. UNCHANGED <<kv, first>> => Grow
  BY DEF Grow
<1>3. [Next]_<<kv, first>> => [Grow]_<<kv, first>>
  BY <1>1, <1>2
<1>. QED
  BY <1>3, PTL DEF Spec, AppendOnly, Grow
=============================================================================
