#!/usr/bin/env python3
# usage: vsum.py <stage.json>  -- summarise violations of a cached stage result
import sys, json, collections
r = json.load(open(sys.argv[1]))
c = collections.Counter((v['pred'], v['op']) for v in r['violations'])
first = {}
for v in r['violations']:
    first.setdefault((v['pred'], v['op']), v)
# first violation per run (root causes)
firstrun = {}
for v in sorted(r['violations'], key=lambda v: (v['bundle'], v['l'])):
    firstrun.setdefault((v['bundle'], v['run']), v)
fc = collections.Counter((v['pred'], v['op']) for v in firstrun.values())
print('events', r['events'], 'runs', r['runs'], 'timeouts', len(r['timeouts']))
for k, n in sorted(c.items(), key=lambda x: -x[1]):
    v = first[k]
    print('%5d first-in-run %4d  %-28s %-12s e.g. %s run %d i %d' % (n, fc.get(k, 0), k[0], k[1], v['bundle'].split('/')[-1], v['run'], v['i']))
print('counts', {k: v for k, v in sorted(r['counts'].items())})
for t in r['timeouts'][:10]: print('timeout', t)
