#!/usr/bin/env python3
"""Stages (cached units of work) and the per-property decision for /verif/check."""
import glob, hashlib, json, os, shutil, sys, time
import vlib
from vlib import log, OUT, VERIF

# ---------------------------------------------------------------- property table

PROPS = {
    # id: (stages, human summary of the deciding method)
    "C01": (["hist_random", "mc_quick", "mc_deep"], "TLC trace validation of SameItemsSameView / SyncReaches on recorded histories"),
    "C02": (["hist_random", "mc_quick"], "TLC trace validation of AppliedComplete / RefreshApplies / RefreshEqualsReload"),
    "C03": (["hist_random", "mc_quick"], "TLC trace validation of Durable (fresh replica after every commit)"),
    "C04": (["hist_random", "mc_quick"], "TLC trace validation of Exact / Weak / Idempotent / EmptyCommit"),
    "C05": (["hist_random", "mc_quick", "fn_revtree", "fn_revision"], "TLC trace validation of WinnerRule / TreeFromBlocks on histories; every small tree shape under every insertion order and the comparison matrix against the spec's rule"),
    "C06": (["hist_random", "mc_quick", "fn_merge", "mc_merge"], "TLC: transcription of merge_arrays satisfies the C06 relation on the bound; the real merge_arrays checked against the relation on every pair; ArrayView on histories"),
    "C07": (["hist_random", "mc_quick"], "TLC trace validation of Resolve"),
    "C08": (["hist_random", "mc_quick"], "watchdog + TLC trace validation of Returns"),
    "C09": (["hist_random", "mc_quick"], "crash / write-failure enumeration + TLC trace validation"),
    "C10": (["hist_random", "mc_quick"], "damage enumeration (flip / truncate / empty / delete / inject) + TLC trace validation of ErrorOrIntact / NoAlteredContent"),
    "C11": (["hist_random", "mc_quick"], "TLC trace validation of Names / AppendOnly / SameBytes"),
    "C12": (["hist_random", "mc_quick"], "TLC trace validation of NoDocChange"),
    "C13": (["hist_random", "mc_quick"], "TLC trace validation of Graph / Commit / ReadBack"),
    "C14": (["hist_random", "mc_quick"], "TLC trace validation of Travel / Retrievable"),
    "C15": (["hist_random", "mc_quick"], "TLC trace validation of Unstage / ExportReplay / Guards / CommitCleans"),
    "C16": (["hist_random", "mc_quick", "fn_diff", "mc_chain"], "TLC trace validation of Reconstructs / StoredEqualsSubmitted"),
    "C17": (["kv", "multi_backend"], "every backend stack against the KVStore model (KVTrace.tla) on seeded operation sequences; the same histories over every backend in lock-step (MultiRun.tla)"),
    "C18": (["multi_config"], "the same histories under pool sizes 1..16, permuted listing orders, cache capacities 1..3 and fresh hash seeds, compared step by step (MultiRun.tla)"),
    "C19": (["hist_random", "mc_quick", "fn_revision"], "TLC trace validation of Canonical / LeafOrderTotal"),
}


# additional stages of the thorough tier
THOROUGH = {
    "C01": ["mc_core", "mc_three", "mc_two_arrays", "mc_deep"], "C02": ["mc_core", "mc_cache"], "C03": ["mc_crash", "mc_deep"], "C04": ["mc_core", "mc_two_arrays"],
    "C05": ["mc_core", "selftest_binding"], "C06": ["mc_core", "mc_two_arrays"], "C07": ["mc_resolve"], "C08": ["mc_resolve", "mc_travel", "mc_objapi"],
    "C09": ["mc_crash", "mc_deep"], "C10": ["mc_damage"], "C11": ["mc_crash"], "C12": ["mc_resolve", "specmutants"], "C13": ["mc_core", "mc_three", "mc_deep"],
    "C14": ["mc_travel"], "C15": ["mc_resolve"], "C16": [], "C17": [], "C18": [], "C19": [],
}


def cache_dir(tier, seed):
    key = vlib.source_key("%s:%s" % (tier, seed))
    d = os.path.join(OUT, "cache", key)
    os.makedirs(d, exist_ok=True)
    # keep the cache small: drop other keys (a changed source tree never reuses them)
    others = sorted((o for o in glob.glob(os.path.join(OUT, "cache", "*")) if o != d), key=os.path.getmtime, reverse=True)
    for other in others[3:]:
        shutil.rmtree(other, ignore_errors=True)
    return d


def stage(name, tier, seed):
    d = cache_dir(tier, seed)
    path = os.path.join(d, name + ".json")
    with vlib.Lock("stage_" + os.path.basename(d) + "_" + name):
        if os.path.exists(path):
            return json.load(open(path))
        t0 = time.time()
        log("stage %s (%s, seed %d) ..." % (name, tier, seed))
        res = STAGES[name](tier, seed, os.path.join(d, name))
        res["wall_s"] = round(time.time() - t0, 2)
        tmp = path + ".tmp%d" % os.getpid()
        json.dump(res, open(tmp, "w"))
        os.rename(tmp, path)
        log("stage %s done in %.1fs" % (name, res["wall_s"]))
        return res


# ---------------------------------------------------------------- stages

def collect(results, specs_path, summary):
    viol, counts, states, consumed = [], {}, 0, 0
    for r in results:
        if r.get("error"):
            raise vlib.ToolError("TLC trace validation failed on %s:\n%s" % (r["bundle"], r["error"]))
        for v in r["violations"]:
            v["specs"] = specs_path
            viol.append(v)
        for k, c in r["counts"].items():
            counts[k] = counts.get(k, 0) + c
        states += r["states"]
        consumed += r["consumed"]
    timeouts = [x for x in summary["runs"] if x.get("timeout")]
    return {"violations": viol, "counts": counts, "tlc_states": states, "events": consumed,
            "runs": len(summary["runs"]), "timeouts": timeouts, "specs": specs_path}


def st_hist_random(tier, seed, d):
    os.makedirs(d, exist_ok=True)
    specs = os.path.join(d, "specs.ndjson")
    n = {"quick": 1, "thorough": 20}[tier]
    plan = [("random", 110 * n), ("crash", 30 * n), ("floats", 20 * n), ("single", 20 * n),
            ("deliver", 50 * n), ("fail", 40 * n), ("damage", 50 * n), ("arrays", 60 * n), ("travel", 36 * n), ("objapi", 30 * n), ("cache", 24 * n)]
    base = 0
    open(specs, "w").close()
    for prof, cnt in plan:
        vlib.gen_specs(specs, seed, cnt, prof, base=base, append=True)
        base += cnt
    summary = vlib.run_hist(specs, d, timeout_ms=10000 if tier == "quick" else 30000, bundle=16)
    results = vlib.validate_dir(d)
    res = collect(results, specs, summary)
    res["samples"] = sample_specs(specs, 3)
    return res


def sample_specs(path, k):
    out = []
    with open(path) as f:
        for i, line in enumerate(f):
            if i >= k:
                break
            s = json.loads(line)
            out.append({"run": s["run"], "label": s.get("label"), "replicas": s.get("replicas"),
                        "ops": [o.get("op") + ":r%s" % o.get("r") for o in s.get("ops", [])][:40]})
    return out


TRYALL = None


def tryall_alphabet():
    """The operation alphabet appended to sampled model states (one implementation test per
    (state, operation) pair, enabled or not: disabled ones must return an error, not hang or panic)."""
    docs = [{"v": 1}, {"v": 2, "a\u266d": []}, {"v": 1, "a\u266d": [{"_id": "e1", "v": 1}]},
            {"v": 1, "a\u266d": [{"_id": "e1", "v": 2}, {"_id": "e2", "v": 1}]},
            {"v": 2, "a\u266d": [{"_id": "e2", "v": 1}, {"_id": "e1", "v": 1}]}, {"v": 2, "b\u266d": [{"_id": "e1", "v": 1}]}]
    ops = []
    for r in (0, 1):
        for d in docs:
            ops.append({"op": "update", "r": r, "doc": d, "twice": True})
        ops += [{"op": "commit", "r": r, "crashenum": True}, {"op": "commit", "r": r, "fail": [1]}, {"op": "commit", "r": r, "fail": [2]},
                {"op": "meld", "r": r, "s": 1 - r, "crashenum": True}, {"op": "refresh", "r": r}, {"op": "reload", "r": r},
                {"op": "unstage", "r": r}, {"op": "export_replay", "r": r}, {"op": "snapshot", "r": r}, {"op": "reopen", "r": r},
                {"op": "sync", "r": r, "s": 1 - r}]
        for hs in range(3):
            ops.append({"op": "reload_until", "r": r, "hs": hs})
        for o in range(3):
            for leaf in range(3):
                ops.append({"op": "resolve", "r": r, "o": o, "leaf": leaf})
        for o in range(4):
            ops.append({"op": "resolve_any", "r": r, "o": o, "leaf": o})
    return ops


def mc_stage(cfgname, quick_sample, thorough_sample, tryall_quick, tryall_thorough, workers=12, simulate=None):
    """simulate=(traces per worker quick, thorough, depth): random deep behaviours (tlc -simulate) instead of BFS."""
    def run(tier, seed, d):
        import random, sched as schedmod, re
        os.makedirs(d, exist_ok=True)
        base = open(os.path.join(vlib.SPEC, "mc", cfgname)).read()
        cfg = os.path.join(d, "emit.cfg")
        open(cfg, "w").write(base.replace("INVARIANTS", "INVARIANTS\n  EmitSched", 1))
        extra = []
        if simulate:
            extra = ["-simulate", "num=%d" % (simulate[0] if tier == "quick" else simulate[1]), "-depth", str(simulate[2]), "-seed", str(seed)]
        rc, out = vlib.run_tlc(os.path.join(vlib.SPEC, "MeldaMC.tla"), cfg, workers=workers, xmx="12g",
                               timeout=3000 if tier == "quick" else 14000, queue_deque=False, extra=extra)
        passed = ("No error has been found" in out) if not simulate else ("Error:" not in out and "Finished in" in out)
        if not passed:
            tail = "\n".join(l for l in out.splitlines() if not l.startswith('<<"SCHED"'))[-3000:]
            raise vlib.ToolError("model checking of %s did not pass (a model-only result is never a VIOLATION):\n%s" % (cfgname, tail))
        if simulate:
            m = re.search(r"The number of states generated: (\d+)", out)
            generated, distinct = int(m.group(1)), 0
            tr = re.findall(r"(\d+) traces generated", out)
        else:
            m = re.search(r"(\d+) states generated, (\d+) distinct states found", out)
            generated, distinct = int(m.group(1)), int(m.group(2))
        depth = re.search(r"depth of the complete state graph search is (\d+)", out)
        scheds = list(schedmod.parse_tlc_output(out))
        maxi = schedmod.maximal(scheds)
        rnd = random.Random(seed)
        rnd.shuffle(maxi)
        n = quick_sample if tier == "quick" else thorough_sample
        if simulate:    # half of the sample: the longest behaviours; the rest: random depths
            maxi.sort(key=lambda sc: -len(sc))
            rest = maxi[n // 2:]
            rnd.shuffle(rest)
            maxi = maxi[:n // 2] + rest
        chosen = maxi[:n]
        nt = tryall_quick if tier == "quick" else tryall_thorough
        specs = os.path.join(d, "specs.ndjson")
        alphabet = tryall_alphabet()
        nrep = 2
        mrep = re.search(r"Replica = \{([^}]*)\}", base)
        if mrep:
            nrep = len(mrep.group(1).split(","))
        with open(specs, "w") as f:
            for i, sc in enumerate(chosen):
                spec = {"run": i, "replicas": nrep, "pool": [1, 2, 4, 16][i % 4], "ops": schedmod.concretise(sc),
                        "label": "model:%s" % cfgname, "nasty": False, "floats": False}
                if i < nt:
                    spec["tryall"] = alphabet
                f.write(json.dumps(spec) + "\n")
        summary = vlib.run_hist(specs, d, timeout_ms=10000 if tier == "quick" else 30000, bundle=12)
        results = vlib.validate_dir(d)
        res = collect(results, specs, summary)
        res["model"] = {"config": cfgname, "states_generated": generated, "distinct_states": distinct,
                        "depth": int(depth.group(1)) if depth else 0, "schedules": len(scheds), "maximal": len(maxi),
                        "replayed": len(chosen), "tryall_states": min(nt, len(chosen)), "tryall_ops": len(alphabet)}
        if simulate:
            res["model"]["mode"] = "simulation (random behaviours of depth %d; every invariant and action property checked on every state generated)" % simulate[2]
            res["model"]["behaviours"] = int(tr[-1]) if tr else 0
        res["samples"] = [{"model_schedule": schedmod.concretise(sc)} for sc in chosen[:2]]
        return res
    return run


def generic_validate(files, module, cfg, envf, jobs=None):
    from concurrent.futures import ThreadPoolExecutor
    jobs = jobs or max(1, vlib.NCPU - 2)
    with ThreadPoolExecutor(max_workers=jobs) as ex:
        return list(ex.map(lambda f: vlib.validate_bundle(f, cfg, module=module, env=envf(f)), files))


def fold_results(results, tag):
    viol, counts, states, consumed = [], {}, 0, 0
    for r in results:
        if r.get("error"):
            raise vlib.ToolError("%s validation failed on %s:\n%s" % (tag, r["bundle"], r["error"]))
        for v in r["violations"]:
            v["fn"] = tag
            viol.append(v)
        for k, c in r["counts"].items():
            counts[k] = counts.get(k, 0) + c
        states += r["states"]
        consumed += r["consumed"]
    return viol, counts, states, consumed


def st_kv(tier, seed, d):
    """C17: seeded operation sequences on every backend stack, validated against spec/KVTrace.tla."""
    import subprocess
    os.makedirs(d, exist_ok=True)
    tmp = os.path.join(OUT, "tmp", "kv_%d" % os.getpid())
    os.makedirs(tmp, exist_ok=True)
    nseq, nops = (60, 60) if tier == "quick" else (400, 150)
    p = subprocess.run([vlib.MVH, "kv", "--out", d, "--tmp", tmp, "--seed", str(seed), "--seqs", str(nseq), "--ops", str(nops),
                        "--shards", "12"], stdout=subprocess.PIPE, stderr=subprocess.STDOUT, text=True)
    shutil.rmtree(tmp, ignore_errors=True)
    if p.returncode != 0:
        raise vlib.ToolError("mvh kv failed: " + p.stdout[-2000:])
    files = sorted(glob.glob(os.path.join(d, "*.kv.ndjson")))
    results = generic_validate(files, "KVTrace.tla", "KVTrace.cfg", lambda f: {"TRACE": f})
    viol, counts, states, consumed = fold_results(results, "kv")
    samples = []
    with open(files[0]) as fh:
        for i, line in enumerate(fh):
            if i in (0, 5, 50, 200):
                samples.append(json.loads(line))
    rc, out = vlib.run_tlc(os.path.join(vlib.SPEC, "KVStoreMC.tla"), os.path.join(vlib.SPEC, "KVStoreMC.cfg"), workers=2, queue_deque=False)
    import re
    m = re.search(r"(\d+) states generated, (\d+) distinct", out)
    if "No error has been found" not in out:
        raise vlib.ToolError("KVStoreMC failed:\n" + out[-1500:])
    # the same two properties of the store model for every set of keys and values: TLAPS proof (proofs/KVStoreProof.tla)
    import shutil as _sh, subprocess as _sp
    pd = os.path.join(d, "proof")
    os.makedirs(pd, exist_ok=True)
    _sh.copy(os.path.join(VERIF, "proofs", "KVStoreProof.tla"), pd)
    _sh.copy(os.path.join(vlib.SPEC, "KVStoreMC.tla"), pd)
    pr = _sp.run(["timeout", "900", "tlapm", "--threads", "4", "KVStoreProof.tla"], cwd=pd, stdout=_sp.PIPE,
                        stderr=_sp.STDOUT, text=True)
    mp = re.search(r"All (\d+) obligations proved", pr.stdout)
    if not mp:
        raise vlib.ToolError("TLAPS proof KVStoreProof did not go through (a model-only result, never a VIOLATION):\n" + pr.stdout[-1500:])
    return {"violations": viol, "counts": counts, "tlc_states": states, "events": consumed, "runs": nseq, "timeouts": [],
            "samples": samples, "model": {"config": "KVStoreMC", "states_generated": int(m.group(1)), "distinct_states": int(m.group(2)),
                                          "tlaps": {"module": "proofs/KVStoreProof.tla", "theorems": ["FirstWins", "Grows"],
                                                    "obligations_proved": int(mp.group(1)), "scope": "unbounded: every set of keys and values"}}}


MULTI_CONFIGS = {
    "config": [
        ("p1", {"pool": 1}, {}),
        ("p2-list1", {"pool": 2, "list_seed": 11}, {}),
        ("p16-list2", {"pool": 16, "list_seed": 12345}, {}),
        ("p4-caps1", {"pool": 4}, {"MELDA_DATA_CACHE_CAP": "1", "MELDA_ARRAYDESCRIPTORS_CACHE_CAP": "1"}),
        ("p3-caps2", {"pool": 3, "list_seed": 7}, {"MELDA_DATA_CACHE_CAP": "2", "MELDA_ARRAYDESCRIPTORS_CACHE_CAP": "2"}),
        ("p8-caps3", {"pool": 8}, {"MELDA_DATA_CACHE_CAP": "3", "MELDA_ARRAYDESCRIPTORS_CACHE_CAP": "3"}),
    ],
    "backend": [
        ("memory", {"backend": "memory"}, {}),
        ("own", {}, {}),
        ("fs", {"backend": "fs"}, {}),
        ("sqlite", {"backend": "sqlite"}, {}),
        ("sqlitemem+flate", {"backend": "sqlitemem+flate"}, {}),
        ("memory+brotli", {"backend": "memory+brotli"}, {}),
        ("fs+flate", {"backend": "fs+flate"}, {}),
    ],
}
EXTRA_CONFIGS_THOROUGH = [("p%d-l%d" % (n, n), {"pool": n, "list_seed": 100 + n}, {"MELDA_DATA_CACHE_CAP": str(1 + n % 4), "MELDA_ARRAYDESCRIPTORS_CACHE_CAP": str(1 + (n // 2) % 4)})
                          for n in (5, 6, 7, 9, 10, 11, 12, 13, 14, 15)]


def view_of(e):
    o = e.get("obs", {})
    if "items" not in o:
        return {"res": e["res"]["kind"], "none": True}
    return {"res": e["res"]["kind"], "objects": o["objects"], "winner": o["winner"], "confl": o["confl"],
            "inconf": o["inconf"], "doc": o["doc"]["sha"], "docok": o["doc"]["ok"], "staging": o["staging"]}


def multi_stage(dim):
    def run(tier, seed, d):
        import subprocess
        os.makedirs(d, exist_ok=True)
        base = os.path.join(d, "base.ndjson")
        n = (60 if tier == "quick" else 400)
        open(base, "w").close()
        k = 0
        # (no "deliver"/"copy" here: item names depend on hash order, so file-by-file delivery orders are not comparable across runs)
        for prof, cnt in (("multi", n // 2), ("arrays", n // 4), ("travel", n // 4)):
            vlib.gen_specs(base, seed + 17, cnt, prof, base=k, append=True)
            k += cnt
        configs = list(MULTI_CONFIGS[dim])
        if tier == "thorough" and dim == "config":
            configs += EXTRA_CONFIGS_THOROUGH
        per = {}
        specs_lines = [json.loads(l) for l in open(base) if l.strip()]
        tmp = os.path.join(OUT, "tmp", "multi_%d" % os.getpid())
        procs = []
        for name, over, env in configs:
            cd = os.path.join(d, name.replace("+", "_"))
            os.makedirs(cd, exist_ok=True)
            sp = os.path.join(cd, "specs.ndjson")
            with open(sp, "w") as f:
                for s0 in specs_lines:
                    s1 = dict(s0)
                    s1.pop("list_seed", None)
                    s1["full"] = False
                    s1.update(over)
                    if "backend" in over:
                        s1["tmpdir"] = os.path.join(tmp, name.replace("+", "_"))
                    f.write(json.dumps(s1) + "\n")
            e = dict(os.environ)
            e.update(env)
            procs.append((name, cd, subprocess.Popen([vlib.MVH, "hist", "--specs", sp, "--out", cd, "--jobs", "4", "--timeout-ms", "20000",
                                                      "--bundle", "100000"], env=e, stdout=subprocess.PIPE, stderr=subprocess.STDOUT, text=True)))
        for name, cd, p in procs:
            out, _ = p.communicate()
            if p.returncode != 0:
                raise vlib.ToolError("mvh hist (%s) failed: %s" % (name, out[-1500:]))
            views = {}
            for f in glob.glob(os.path.join(cd, "b*.trace.ndjson")):
                with open(f) as fh:
                    seq = {}
                    for line in fh:
                        e = json.loads(line)
                        if e["op"] == "reset":
                            continue
                        key = (e["run"], seq.setdefault(e["run"], 0))
                        seq[e["run"]] += 1
                        views[key] = (e["op"], view_of(e))
            per[name] = views
        shutil.rmtree(tmp, ignore_errors=True)
        names = [c[0] for c in configs]
        keys = sorted(set().union(*[set(v.keys()) for v in per.values()]))
        shards = 8
        files = [open(os.path.join(d, "multi%03d.multi.ndjson" % i), "w") for i in range(shards)]
        for (run, i) in keys:
            vs, cf, op = [], [], ""
            for nme in names:
                if (run, i) in per[nme]:
                    op = per[nme][(run, i)][0]
                    vs.append(dict(per[nme][(run, i)][1], op=op))
                    cf.append(nme)
            rec = {"dim": dim, "run": run, "i": i + 1, "op": op, "cfgs": names, "have": cf, "views": vs}
            files[run % shards].write(json.dumps(rec) + "\n")
        for f in files:
            f.close()
        fl = [f.name for f in files if os.path.getsize(f.name) > 0]
        results = generic_validate(fl, "MultiRun.tla", "MultiRun.cfg", lambda f: {"TRACE": f})
        viol, counts, states, consumed = fold_results(results, "multi:" + dim)
        return {"violations": viol, "counts": counts, "tlc_states": states, "events": consumed, "runs": len(specs_lines) * len(configs),
                "timeouts": [], "samples": [{"configs": names, "histories": len(specs_lines)}],
                "configs": [{"name": c[0], "spec": c[1], "env": c[2]} for c in configs]}
    return run


def st_selftest_binding(tier, seed, d):
    """Demonstrates the binding: recorded traces with one field corrupted, or one event dropped,
    must be rejected by the specification (expected-fail runs: never VIOLATION lines)."""
    import copy
    os.makedirs(d, exist_ok=True)
    src = stage("hist_random", tier, seed)
    sdir = os.path.join(cache_dir(tier, seed), "hist_random")
    base = sorted(glob.glob(os.path.join(sdir, "b*.trace.ndjson")))[0][:-len(".trace.ndjson")]
    lines = [json.loads(l) for l in open(base + ".trace.ndjson")]

    def find(pred):
        for i, e in enumerate(lines):
            if e["op"] != "reset" and "items" in e.get("obs", {}) and pred(e):
                return i
        return None

    cases = []
    i = find(lambda e: e["op"] == "Commit" and e["x"].get("committed") and len(e["obs"]["heads"]) == 1)
    if i is not None:
        c = copy.deepcopy(lines); c[i]["obs"]["heads"] = []
        cases.append(("head dropped from a Commit observation", c, {"C13_Graph", "C13_Commit"}))
        c = copy.deepcopy(lines)
        k = next(iter(c[i]["obs"]["status"]))
        c[i]["obs"]["status"][k] = "blocked"
        cases.append(("status of an applied block changed to blocked", c, {"C05_TreeFromBlocks", "C13_Graph", "C02_RefreshApplies", "C03_Durable"}))
        c = copy.deepcopy(lines); del c[i]
        cases.append(("a Commit event removed (unexplained change of storage)", c, {"D_FrameStorage", "C11_AppendOnly", "C13_Commit", "C04_EmptyCommit"}))
    i = find(lambda e: any(len(t) >= 2 for t in e["obs"]["trees"].values()))
    if i is not None:
        c = copy.deepcopy(lines)
        o = next(k for k, t in c[i]["obs"]["trees"].items() if len(t) >= 2)
        other = [r["rev"] for r in c[i]["obs"]["trees"][o] if r["rev"] != c[i]["obs"]["winner"][o]][0]
        c[i]["obs"]["winner"][o] = other
        cases.append(("winner of an object replaced by another revision of its tree", c, {"C05_WinnerRule"}))
    i = find(lambda e: e["op"] == "Update" and e["res"]["kind"] == "ok" and e["obs"]["doc"]["ok"])
    if i is not None:
        c = copy.deepcopy(lines); c[i]["obs"]["doc"]["sha"] = "0" * 64
        cases.append(("document digest altered after an Update", c, {"C04_Exact", "C04_WeakUnderArrayConflict", "C04_Idempotent"}))
    out = []
    for n, (what, evs, expect) in enumerate(cases):
        b = os.path.join(d, "c%02d" % n)
        with open(b + ".trace.ndjson", "w") as f:
            for e in evs:
                f.write(json.dumps(e) + "\n")
        shutil.copyfile(base + ".items.ndjson", b + ".items.ndjson")
        shutil.copyfile(base + ".revs.ndjson", b + ".revs.ndjson")
        r = vlib.validate_bundle(b)
        got = {v["pred"] for v in r["violations"]}
        out.append({"corruption": what, "expected_any_of": sorted(expect), "rejected_by": sorted(got), "rejected": bool(got & expect)})
    return {"violations": [], "counts": {}, "tlc_states": 0, "events": 0, "runs": 0, "timeouts": [], "selftest": out}


def st_specmutants(tier, seed, d):
    """Every Bug switch of the model must violate the property it is meant to break."""
    import subprocess
    os.makedirs(d, exist_ok=True)
    p = subprocess.run([sys.executable, os.path.join(VERIF, "tools", "specmutants.py")], stdout=subprocess.PIPE, stderr=subprocess.STDOUT, text=True)
    rows = [l.split() for l in p.stdout.splitlines() if "CAUGHT" in l or "MISSED" in l]
    return {"violations": [], "counts": {}, "tlc_states": 0, "events": 0, "runs": 0, "timeouts": [],
            "specmutants": [{"bug": r[0], "result": r[1], "violated": r[2]} for r in rows], "raw": p.stdout[-3000:]}


def st_mc_chain(tier, seed, d):
    """ArrayChain: the LRU-cached chain walk of rebuild_array_order, every access sequence over three
    version trees, capacities 1..3 (quick) / 1..4 (thorough); plus two transcribed defects that must be caught."""
    import re
    os.makedirs(d, exist_ok=True)
    caps = (1, 2, 3) if tier == "quick" else (1, 2, 3, 4)
    tot_g = tot_d = 0
    runs = []
    def cfg(shape, k, bug):
        path = os.path.join(d, "ac_%d_%d_%s.cfg" % (shape, k, bug or "ok"))
        open(path, "w").write("SPECIFICATION Spec\nCONSTANTS\n  N <- NDef\n  Par <- ParDef\n  Kind <- KindDef\n  Shape = %d\n  K = %d\n  Bug = {%s}\n"
                              "INVARIANTS\n  RebuildCorrect\n  CacheCorrect\n  CacheBounded\nCHECK_DEADLOCK FALSE\n" % (shape, k, ('"%s"' % bug) if bug else ""))
        return path
    for shape in (1, 2, 3):
        for k in caps:
            rc, out = vlib.run_tlc(os.path.join(vlib.SPEC, "ArrayChainMC.tla"), cfg(shape, k, None), workers=2, xmx="2g", timeout=600, queue_deque=False)
            if "No error has been found" not in out:
                raise vlib.ToolError("ArrayChainMC shape %d K %d failed (model-only result, never a VIOLATION):\n%s" % (shape, k, out[-1500:]))
            m = re.search(r"(\d+) states generated, (\d+) distinct", out)
            tot_g += int(m.group(1)); tot_d += int(m.group(2))
            runs.append({"shape": shape, "K": k, "distinct": int(m.group(2))})
    mutants = []
    for bug, shape in (("cache_off_by_one", 1), ("skip_deleted", 2)):
        rc, out = vlib.run_tlc(os.path.join(vlib.SPEC, "ArrayChainMC.tla"), cfg(shape, 3, bug), workers=2, xmx="2g", timeout=600, queue_deque=False)
        m = re.search(r"Invariant (\w+) is violated", out)
        mutants.append({"bug": bug, "result": "CAUGHT" if m else "MISSED", "violated": m.group(1) if m else None})
    return {"violations": [], "counts": {}, "tlc_states": 0, "events": 0, "runs": 0, "timeouts": [],
            "model": {"config": "ArrayChainMC (3 trees x capacities %s)" % (caps,), "states_generated": tot_g, "distinct_states": tot_d, "runs": runs},
            "specmutants": mutants}


def fn_stage(which):
    def run(tier, seed, d):
        info = vlib.run_fn(which, d, tier, seed)
        results = vlib.validate_fn_dir(d)
        viol, counts, states, consumed = [], {}, 0, 0
        for r in results:
            if r.get("error"):
                raise vlib.ToolError("FnTrace validation failed on %s:\n%s" % (r["bundle"], r["error"]))
            for v in r["violations"]:
                v["fn"] = which
                viol.append(v)
            for k, c in r["counts"].items():
                counts[k] = counts.get(k, 0) + c
            states += r["states"]
            consumed += r["consumed"]
        samples = []
        for f in sorted(glob.glob(os.path.join(d, "*.fn.ndjson")))[:1]:
            with open(f) as fh:
                for i, line in enumerate(fh):
                    if i % 997 == 0 and len(samples) < 4:
                        samples.append(json.loads(line))
        return {"violations": viol, "counts": counts, "tlc_states": states, "events": consumed, "runs": 0,
                "timeouts": [], "samples": samples, "fn_events": info["events"], "exhaustive_fn": which in ("merge", "diff")}
    return run


def st_mc_merge(tier, seed, d):
    """TLC shows the transcription of merge_arrays satisfies the C06 relation on the bound."""
    os.makedirs(d, exist_ok=True)
    cfg = os.path.join(d, "ArrayMergeMC.cfg")
    syms, maxlen = ('{"a", "b", "c", "d"}', 4) if tier == "quick" else ('{"a", "b", "c", "d", "e"}', 5)
    open(cfg, "w").write("INIT Init\nNEXT Next\nCONSTANTS\n  Syms = %s\n  MaxLen = %d\n" % (syms, maxlen))
    rc, out = vlib.run_tlc(os.path.join(vlib.SPEC, "ArrayMergeMC.tla"), cfg, workers=4, xmx="4g", timeout=3000, queue_deque=False)
    import re
    m = re.search(r'<<"PAIRS", (\d+)>>', out)
    ok = "No error has been found" in out
    if not ok:
        raise vlib.ToolError("ArrayMergeMC failed (model-only result, never a VIOLATION):\n" + out[-2000:])
    return {"violations": [], "counts": {}, "tlc_states": 1, "events": 0, "runs": 0, "timeouts": [],
            "model": {"module": "ArrayMergeMC", "pairs": int(m.group(1)) if m else 0}}


STAGES = {"hist_random": st_hist_random, "fn_merge": fn_stage("merge"), "fn_diff": fn_stage("diff"),
          "fn_revision": fn_stage("revision"), "fn_revtree": fn_stage("revtree"), "mc_merge": st_mc_merge,
          "mc_quick": mc_stage("MC_quick.cfg", 300, 3000, 24, 200),
          "mc_core": mc_stage("MC_core.cfg", 300, 4000, 0, 100, workers=14), "mc_crash": mc_stage("MC_crash.cfg", 300, 4000, 0, 100, workers=14),
          "mc_resolve": mc_stage("MC_resolve.cfg", 300, 4000, 0, 200, workers=14), "mc_travel": mc_stage("MC_travel.cfg", 300, 4000, 0, 200, workers=14),
          "mc_damage": mc_stage("MC_damage.cfg", 300, 4000, 0, 0, workers=14), "mc_two_arrays": mc_stage("MC_two_arrays.cfg", 300, 3000, 0, 100, workers=14),
          "mc_three": mc_stage("MC_three.cfg", 300, 3000, 0, 100, workers=14),
          "mc_objapi": mc_stage("MC_objapi.cfg", 200, 2000, 0, 50, workers=14),
          "mc_cache": mc_stage("MC_cache.cfg", 200, 3000, 0, 50, workers=14),
          "mc_deep": mc_stage("SIM_deep.cfg", 100, 2000, 0, 50, workers=14, simulate=(4, 60, 30)),
          "mc_chain": st_mc_chain, "selftest_binding": st_selftest_binding, "specmutants": st_specmutants,
          "kv": st_kv, "multi_config": multi_stage("config"), "multi_backend": multi_stage("backend")}

# ---------------------------------------------------------------- known findings

def load_known():
    p = os.path.join(VERIF, "known_findings.json")
    if os.path.exists(p):
        return json.load(open(p))
    return {"findings": [], "fixed": []}


def event_context(v):
    """The violating event plus the earlier events of its run (for classifiers and replays)."""
    evs = vlib.load_events(v["bundle"], v["run"])
    # events of a run are contiguous in the bundle; `l` is the 1-based line number in the bundle
    return evs


def cls_refresh_after_damage_to_loaded_item(v, f):
    """P10: an incremental refresh does not notice damage to items the replica had already loaded."""
    if v["op"] != "Refresh":
        return False
    evs = [e for e in vlib.load_events(v["bundle"], v["run"])]
    # events of the mini-run (between resets) that contains the violation
    cur, found = [], None
    for e in evs:
        if e["op"] == "reset":
            cur = []
        cur.append(e)
        if e["i"] == v["i"] and e["op"] == v["op"]:
            found = list(cur)
            break
    if not found:
        return False
    r = found[-1]["r"]
    mine = [e for e in found if e.get("r") == r]
    damages = [(k, e) for k, e in enumerate(mine) if e["op"] == "Damage"]
    if not damages:
        return False
    final_status = found[-1].get("obs", {}).get("status", {})
    relevant = 0
    for k, d in damages:
        key = d["a"].get("key", "")
        if d["a"].get("kind") == "inject":
            # injected junk the replica ignores (a block name it did not load) explains nothing; an injected
            # pack, or junk the replica did load, is not this finding
            if key.endswith(".delta") and key[:-6] not in final_status:
                continue
            return False
        if key.endswith(".delta") and key[:-6] not in final_status:
            continue        # a damaged block the replica does not hold in memory cannot explain the stale state
        relevant += 1
        loaded = False
        for e in mine[:k]:
            o = e.get("obs", {})
            if key.endswith(".delta") and key[:-6] in o.get("status", {}):
                loaded = True
            if key.endswith(".pack") and e["op"] in ("Refresh", "Reload", "Open", "Commit") and e["res"]["kind"] == "ok" \
                    and any(t.startswith(key + "%23") for t in o.get("items", [])):
                loaded = True
        if not loaded:
            return False
    if relevant == 0:
        return False
    # The finding is about KEEPING what was loaded before the damage.  A block that this refresh newly applies
    # although it names a damaged pack is something else (the library re-reads and re-hashes the packs a block
    # names whenever it examines the block): never this finding.
    before = {}
    for e in mine[:-1]:
        if "status" in e.get("obs", {}):
            before = e["obs"]["status"]
    newly = [n for n, st in final_status.items() if st == "applied" and before.get(n) != "applied"]
    if newly:
        damaged_packs = {d["a"].get("key", "")[:-5] for _, d in damages if d["a"].get("key", "").endswith(".pack")}
        named = {}
        try:
            with open(v["bundle"] + ".items.ndjson") as fh:
                for line in fh:
                    it = json.loads(line)
                    if it.get("kind") == "delta" and it.get("name") in newly:
                        named.setdefault(it["name"], set()).update(it.get("packs", []))
        except OSError:
            return False
        for n in newly:
            if named.get(n, set()) & damaged_packs:
                return False
    return True


CLASSIFIERS = {"refresh_after_damage_to_loaded_item": cls_refresh_after_damage_to_loaded_item}


def classify(v, known):
    for f in known.get("findings", []):
        if f["predicate"] != v["pred"]:
            continue
        fn = CLASSIFIERS.get(f.get("classifier", ""))
        if fn is None:
            continue
        try:
            if fn(v, f):
                return f
        except Exception as e:  # a broken classifier must never hide a violation
            log("classifier error", e)
    return None


# ---------------------------------------------------------------- decision

def write_replay(pid, v):
    os.makedirs(os.path.join(OUT, "replays"), exist_ok=True)
    if v.get("fn"):
        line = ""
        with open(v["bundle"]) as f:
            for i, ln in enumerate(f, 1):
                if i == v["l"]:
                    line = ln
                    break
        body = {"property": pid, "predicate": v["pred"], "fn": v["fn"], "line": v["l"], "event": json.loads(line) if line else None}
        h = hashlib.sha256(json.dumps(body, sort_keys=True).encode()).hexdigest()[:12]
        path = os.path.join(OUT, "replays", "%s-%s.json" % (pid, h))
        json.dump(body, open(path, "w"))
        return path
    spec = vlib.find_spec(v["specs"], v["run"]) if v.get("specs") else None
    evs = []
    try:
        evs = [e for e in vlib.load_events(v["bundle"], v["run"])]
    except Exception:
        pass
    # keep the events around the violation small: drop observations except the last two
    slim = []
    for e in evs:
        slim.append({"i": e["i"], "op": e["op"], "r": e["r"], "a": e.get("a"), "res": e.get("res")})
    body = {"property": pid, "predicate": v["pred"], "run": v["run"], "i": v["i"], "op": v["op"],
            "spec": spec, "events": slim}
    h = hashlib.sha256(json.dumps([v["pred"], spec], sort_keys=True).encode()).hexdigest()[:12]
    path = os.path.join(OUT, "replays", "%s-%s.json" % (pid, h))
    json.dump(body, open(path, "w"))
    return path


def decide(pid, tier, seed, t0):
    if pid not in PROPS:
        raise vlib.ToolError("unknown or unclaimed property " + pid)
    stage_names, method = PROPS[pid]
    if tier == "thorough":
        stage_names = list(stage_names) + THOROUGH.get(pid, [])
    results = {n: stage(n, tier, seed) for n in stage_names}
    known = load_known()
    viols, counts = [], {}
    events = runs = states = 0
    timeouts = []
    samples = []
    for n, r in results.items():
        for v in r.get("violations", []):
            if v["pred"].startswith(pid + "_"):
                viols.append(v)
        for k, c in r.get("counts", {}).items():
            if k.startswith(pid + "_"):
                counts[k] = counts.get(k, 0) + c
        events += r.get("events", 0)
        runs += r.get("runs", 0)
        states += r.get("tlc_states", 0)
        timeouts += r.get("timeouts", [])
        samples += r.get("samples", [])
    drift = {}
    for n, r in results.items():
        for v in r.get("violations", []):
            if v["pred"][:2] in ("D_", "X_"):
                drift[v["pred"]] = drift.get(v["pred"], 0) + 1
    for k, c in sorted(drift.items()):
        log("DRIFT (Level-I conformance, not a property violation): %s at %d event(s)" % (k, c))
    unknown, knownhits = [], {}
    for v in viols:
        f = classify(v, known)
        if f:
            knownhits.setdefault(f["id"], (f, 0))
            knownhits[f["id"]] = (f, knownhits[f["id"]][1] + 1)
        else:
            unknown.append(v)
    for fid, (f, n) in sorted(knownhits.items()):
        print("KNOWN-FINDING: property=%s %s (%s; %d occurrence(s) in this run)" % (pid, f["what"], fid, n))
    # one VIOLATION line per distinct (predicate, op); replay of the first occurrence
    seen = set()
    nviol = 0
    for v in unknown:
        sig = (v["pred"], v["op"])
        if sig in seen:
            continue
        seen.add(sig)
        nviol += 1
        path = write_replay(pid, v)
        print("VIOLATION property=%s replay=%s predicate=%s op=%s run=%d step=%d" % (pid, path, v["pred"], v["op"], v["run"], v["i"]))
    models = [r["model"] for r in results.values() if r.get("model")]
    write_evidence(pid, tier, seed, t0, method, counts, events, runs, states, samples, len(unknown), results, models, len(knownhits), drift)
    sys.stdout.flush()
    return 1 if unknown else 0


def write_evidence(pid, tier, seed, t0, method, counts, events, runs, states, samples, nviol, results, models=(), nknown=0, drift=None):
    if os.environ.get("VERIF_NO_EVIDENCE"):     # runs against deliberately broken trees (seeded changes) leave the evidence alone
        return
    os.makedirs(os.path.join(VERIF, "evidence"), exist_ok=True)
    nontrivial = sum(counts.values())
    mstates = sum(m.get("distinct_states", 0) for m in models)
    mtrans = sum(m.get("states_generated", 0) for m in models)
    ev = {
        "property_id": pid, "tier": tier, "seed": seed, "level": "model_checking",
        "coverage": {
            "states": max(mstates + states, 1), "transitions": max(mtrans + events, 1),
            "model_runs": list(models),
            "states_note": "states = distinct states of the TLC model-checking runs listed in model_runs plus one TLC state per "
                           "validated trace event; transitions = states generated by those runs plus validated events",
            "known_findings_hit": nknown,
            "level_I_drift": drift or {},
            "binding_selftest": [x for r in results.values() for x in r.get("selftest", [])],
            "spec_mutants": [x for r in results.values() for x in r.get("specmutants", [])],
            "traces_validated_against_impl": runs,
            "samples": samples[:5] or [{"note": "no sample"}],
            "evaluations": events,
            "distinct_nontrivial": nontrivial,
            "rule": "one evaluation per recorded API event; non-trivial = events at which the antecedent of a "
                    "predicate of this property held (counted by TLC with TLCSet/TLCGet registers)",
            "antecedent_counts": counts,
            "method": method,
            "stages": {n: {"wall_s": r.get("wall_s"), "events": r.get("events"), "runs": r.get("runs")} for n, r in results.items()},
            "exhaustive": False,
        },
        "assumptions": ["TLC 1.8.0", "harness projection and its SHA-256 / JSON splitting (jsonx.rs, obs.rs)",
                        "hooks H2/H3 report the in-memory state faithfully (cross-checked against raw block files)",
                        "item writes are atomic"],
        "wall_s": round(time.time() - t0, 2),
        "violations": nviol,
    }
    path = os.path.join(VERIF, "evidence", pid + ".json")
    tmp = path + ".tmp%d" % os.getpid()
    json.dump(ev, open(tmp, "w"), indent=1)
    os.rename(tmp, path)


def do_replay(pid, path):
    body = json.load(open(path))
    if body.get("fn"):
        d = os.path.join(OUT, "replay_%d" % os.getpid())
        shutil.rmtree(d, ignore_errors=True)
        vlib.run_fn(body["fn"], d, "quick", 1)
        res = vlib.validate_fn_dir(d)
        bad = [v for r in res for v in r["violations"] if v["pred"].startswith(pid + "_")]
        for v in bad[:5]:
            print("VIOLATION property=%s replay=%s predicate=%s op=%s line=%d" % (pid, path, v["pred"], v["op"], v["l"]))
        shutil.rmtree(d, ignore_errors=True)
        return 1 if bad else 0
    spec = body.get("spec")
    if not spec:
        raise vlib.ToolError("replay file has no run specification")
    d = os.path.join(OUT, "replay_%d" % os.getpid())
    shutil.rmtree(d, ignore_errors=True)
    os.makedirs(d)
    sp = os.path.join(d, "specs.ndjson")
    open(sp, "w").write(json.dumps(spec) + "\n")
    vlib.run_hist(sp, d, jobs=1)
    res = vlib.validate_dir(d, jobs=1)
    bad = [v for r in res for v in r["violations"] if v["pred"].startswith(pid + "_")]
    for r in res:
        if r.get("error"):
            raise vlib.ToolError(r["error"])
    for v in bad:
        print("VIOLATION property=%s replay=%s predicate=%s op=%s run=%d step=%d" % (pid, path, v["pred"], v["op"], v["run"], v["i"]))
    shutil.rmtree(d, ignore_errors=True)
    return 1 if bad else 0
