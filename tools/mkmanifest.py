#!/usr/bin/env python3
"""Regenerates /verif/MANIFEST.json from tools/stages.py (PROPS) and tools/manifest_text.py."""
import json, os, sys
sys.path.insert(0, os.path.dirname(os.path.abspath(__file__)))
import stages, manifest_text as T

props = [json.loads(l) for l in open(os.path.join(stages.VERIF, "properties.jsonl")) if l.strip()]
checks, na = [], []
for p in props:
    pid = p["id"]
    if pid in stages.PROPS and pid not in T.NOT_APPLICABLE:
        checks.append({
            "property_id": pid,
            "quick_cmd": "./check %s --tier quick" % pid,
            "thorough_cmd": "./check %s --tier thorough" % pid,
            "evidence_file": "evidence/%s.json" % pid,
            "replay_cmd_template": "./check %s --replay {path}" % pid,
            "engine": "tlc+mvh",
            "level_claimed": {"category": "model_checking", "text": T.LEVEL_TEXT.get(pid, T.DEFAULT_LEVEL_TEXT), "design_ref": "DESIGN.md section 6, " + pid},
            "level_note": T.LEVEL_NOTE,
            "technique": T.TECHNIQUE.get(pid, stages.PROPS[pid][1]),
        })
    else:
        na.append({"property_id": pid, "reason": T.NOT_APPLICABLE.get(pid, "check not built yet (see DESIGN.md section 11); not claimed")})
m = {
    "version": 1,
    "setup_cmd": "./setup.sh",
    "hooks": {
        "guard": "melda_verif",
        "enable": "RUSTFLAGS='--cfg melda_verif' (set in harness/.cargo/config.toml; the harness has a path dependency on /repo)",
        "baseline_off_cmd": "cd /repo && cargo test --workspace --no-fail-fast --offline",
        "source_commits": T.HOOK_COMMITS,
        "add_only": True,
    },
    "engines": [
        {"name": "tlc+mvh", "path": "check", "serves_properties": [c["property_id"] for c in checks],
         "kind_free_text": "TLA+ specification (spec/*.tla) checked by TLC; Rust harness (harness/) replays model schedules and random histories in libmelda and records traces that TLC validates against the specification"},
    ],
    "checks": checks,
    "not_applicable": na,
    "notes": T.NOTES,
}
json.dump(m, open(os.path.join(stages.VERIF, "MANIFEST.json"), "w"), indent=1)
print("claimed", len(checks), "not_applicable", len(na))
