#!/bin/sh
# usage: mc.sh <cfg> [workers] [extra tlc args]
cfg="$1"; w="${2:-12}"; shift; shift 2>/dev/null
cd /verif/spec && exec timeout "${TLC_TIMEOUT:-3600}" java -Xmx${TLC_XMX:-12g} -XX:+UseParallelGC -cp /opt/veriftools/tla/tla2tools.jar:/opt/veriftools/tla/CommunityModules-deps.jar tlc2.TLC -workers "$w" -metadir "/verif/out/tlcmeta/mc$$" -cleanup -noGenerateSpecTE -config "$cfg" "$@" MeldaMC.tla
