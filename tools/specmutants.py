#!/usr/bin/env python3
"""Spec mutants: every Bug switch of spec/Melda.tla must make TLC violate the property it is
meant to break (non-vacuity of the Level-A properties on the model).  Prints one line per switch;
exit 0 iff every switch is caught by an expected property.  Never prints VIOLATION lines."""
import os, re, subprocess, sys, tempfile, json
SPEC = "/verif/spec"
BASE = os.path.join(SPEC, "mc", sys.argv[1] if len(sys.argv) > 1 else "MC_mut.cfg")
EXPECT = {
    "block_before_pack": ["P_C09_WriteOrder", "I_C09_OwnBlocksComplete"],
    "stage_cleared_early": ["I_C09_StageKeepsObjects"],
    "no_gating": ["I_C02_AppliedComplete", "P_C02_RefreshApplies", "I_C13_Graph"],
    "parents_only_gating": ["I_C02_AppliedComplete", "P_C02_RefreshApplies"],
    "blocked_forever": ["P_C02_RefreshApplies", "I_C01_Converge"],
    "meld_skips_packs": ["I_C01_Converge", "P_C02_RefreshApplies", "I_C03_Durable"],
    "no_seal": ["P_C07_Resolve"],
    "resolve_marker_value": ["P_C07_Resolve"],
    "no_merge": ["I_C06_ArrayView"],
    "ghosts": ["I_C06_ArrayView"],
    "no_autoresolve": ["P_C12_NoDocChange", "I_C01_Converge", "I_C03_Durable"],
    "markers_not_lowest": ["P_C07_Resolve", "I_C01_Converge"],
    "parents_all_applied": ["P_C13_Commit"],
    "no_delete_vanished": ["P_C04_ReadAfterEdit"],
    "unstage_keeps_new": ["P_C15_Unstage"],
    "first_parent_only": ["P_C14_Travel"],
    "snapshot_unmerged": ["P_C12_NoDocChange"],
}
only = sys.argv[2:] or sorted(EXPECT)
base = open(BASE).read()
ok = True
for bug in only:
    cfg = base.replace("Bug = {}", 'Bug = {"%s"}' % bug)
    path = os.path.join(SPEC, "mc", "_mut_%s.cfg" % bug)
    open(path, "w").write(cfg)
    meta = tempfile.mkdtemp(prefix="tlcmut", dir="/verif/out")
    cmd = ["timeout", "900", "java", "-Xmx8g", "-XX:+UseParallelGC", "-cp",
           "/opt/veriftools/tla/tla2tools.jar:/opt/veriftools/tla/CommunityModules-deps.jar", "tlc2.TLC",
           "-workers", "12", "-metadir", meta, "-cleanup", "-noGenerateSpecTE", "-config", path, "MeldaMC.tla"]
    p = subprocess.run(cmd, cwd=SPEC, stdout=subprocess.PIPE, stderr=subprocess.STDOUT, text=True)
    os.remove(path)
    subprocess.run(["rm", "-rf", meta])
    m = re.search(r"Invariant (\w+) is violated|Action property (\w+) is violated", p.stdout)
    got = (m.group(1) or m.group(2)) if m else None
    st = re.search(r"(\d+) states generated, (\d+) distinct", p.stdout)
    caught = got in EXPECT[bug]
    ok &= caught
    print("%-24s %-8s violated=%s expected=%s states=%s" % (bug, "CAUGHT" if caught else "MISSED", got, EXPECT[bug], st.group(2) if st else "?"), flush=True)
    if got is None and "Error" in p.stdout:
        print(p.stdout[-1500:])
sys.exit(0 if ok else 1)
