#!/usr/bin/env python3
"""Spec mutants: every Bug switch of spec/Melda.tla must make TLC violate the property it is
meant to break (non-vacuity of the Level-A properties on the model).  Prints one line per switch;
exit 0 iff every switch is caught by an expected property.  Never prints VIOLATION lines."""
import os, re, subprocess, sys, tempfile, json
SPEC = "/verif/spec"
EXPECT = {
    # switch: (config, properties of which one must be violated)
    "block_before_pack": ("MUT_crash.cfg", ["P_C09_WriteOrder", "I_C09_OwnBlocksComplete"]),
    "stage_cleared_early": ("MUT_crash.cfg", ["I_C09_StageKeepsObjects"]),
    "no_gating": ("MUT_core.cfg", ["I_C02_AppliedComplete", "P_C02_RefreshApplies", "I_C13_Graph"]),
    "parents_only_gating": ("MUT_core.cfg", ["I_C02_AppliedComplete", "P_C02_RefreshApplies"]),
    "blocked_forever": ("MUT_core.cfg", ["P_C02_RefreshApplies", "I_C01_Converge"]),
    "meld_skips_packs": ("MUT_core.cfg", ["I_C01_Converge", "P_C02_RefreshApplies", "I_C03_Durable"]),
    "parents_all_applied": ("MUT_core.cfg", ["P_C13_Commit"]),
    "no_delete_vanished": ("MUT_core.cfg", ["P_C04_ReadAfterEdit"]),
    "no_seal": ("MUT_resolve.cfg", ["P_C07_Resolve"]),
    "resolve_marker_value": ("MUT_resolve.cfg", ["P_C07_Resolve"]),
    "markers_not_lowest": ("MUT_resolve.cfg", ["P_C07_Resolve", "I_C01_Converge", "P_C12_NoDocChange"]),
    "no_merge": ("SIM:MUT_deep.cfg", ["I_C06_ArrayView"]),
    "ghosts": ("SIM:MUT_deep.cfg", ["I_C06_ArrayView"]),
    "no_autoresolve": ("MUT_resolve.cfg", ["P_C12_NoDocChange", "I_C01_Converge", "I_C03_Durable", "I_C06_ArrayView"]),
    "unstage_keeps_new": ("MUT_resolve.cfg", ["P_C15_Unstage"]),
    "snapshot_unmerged": ("MUT_resolve.cfg", ["P_C12_NoDocChange"]),
    "first_parent_only": ("MUT_travel.cfg", ["P_C14_Travel", "I_C13_Graph"]),
    "unstage_keeps_cache": ("MUT_cache.cfg", ["I_C02_AppliedComplete", "P_C02_RefreshApplies"]),       # defect P13 before its repair
    "reload_keeps_cache": ("MUT_cachedamage.cfg", ["I_C02_AppliedComplete", "P_C10_ErrorOrIntact"]),  # defect P12 before its repair
}
only = sys.argv[1:] or sorted(EXPECT)
ok = True
for bug in only:
    cfgname, expected = EXPECT[bug]
    sim = cfgname.startswith("SIM:")
    cfgname = cfgname.replace("SIM:", "")
    cfg = open(os.path.join(SPEC, "mc", cfgname)).read().replace("Bug = {}", 'Bug = {"%s"}' % bug)
    path = os.path.join("/verif/out", "_mut_%s_%d.cfg" % (bug, os.getpid()))
    open(path, "w").write(cfg)
    meta = tempfile.mkdtemp(prefix="tlcmut", dir="/verif/out")
    cmd = ["timeout", "900", "java", "-Xmx8g", "-XX:+UseParallelGC", "-cp",
           "/opt/veriftools/tla/tla2tools.jar:/opt/veriftools/tla/CommunityModules-deps.jar", "tlc2.TLC",
           "-workers", os.environ.get("MUT_WORKERS", "12"), "-metadir", meta, "-cleanup", "-noGenerateSpecTE", "-config", path] + (["-simulate", "num=300000", "-depth", "15"] if sim else []) + ["MeldaMC.tla"]
    p = subprocess.run(cmd, cwd=SPEC, stdout=subprocess.PIPE, stderr=subprocess.STDOUT, text=True)
    os.remove(path)
    subprocess.run(["rm", "-rf", meta])
    m = re.search(r"Invariant (\w+) is violated|Action property (\w+) is violated", p.stdout)
    got = (m.group(1) or m.group(2)) if m else None
    st = re.search(r"(\d+) states generated, (\d+) distinct", p.stdout)
    caught = got in expected
    ok &= caught
    print("%-24s %-8s violated=%s expected=%s states=%s" % (bug, "CAUGHT" if caught else "MISSED", got, expected, st.group(2) if st else "?"), flush=True)
    if got is None and "Error" in p.stdout:
        print(p.stdout[-1500:])
sys.exit(0 if ok else 1)
