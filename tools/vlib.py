#!/usr/bin/env python3
"""Shared orchestration for /verif/check: build, stages with a content-keyed cache, TLC runs,
violation attribution, replay files, evidence."""
import fcntl, glob, hashlib, json, os, re, shutil, subprocess, sys, time
from concurrent.futures import ThreadPoolExecutor

VERIF = os.path.dirname(os.path.dirname(os.path.abspath(__file__)))
REPO = "/repo"
OUT = os.path.join(VERIF, "out")
HARNESS = os.path.join(VERIF, "harness")
MVH = os.path.join(HARNESS, "target", "release", "mvh")
SPEC = os.path.join(VERIF, "spec")
JAVA_CP = "/opt/veriftools/tla/tla2tools.jar:/opt/veriftools/tla/CommunityModules-deps.jar"
NCPU = os.cpu_count() or 8


class ToolError(Exception):
    pass


def log(*a):
    print("[check]", *a, file=sys.stderr, flush=True)


def sha_files(paths):
    h = hashlib.sha256()
    for p in sorted(paths):
        h.update(p.encode())
        try:
            with open(p, "rb") as f:
                h.update(f.read())
        except OSError:
            h.update(b"<missing>")
    return h.hexdigest()


_KEY_CACHE = {}


def source_key(extra=""):
    if extra in _KEY_CACHE:      # one key per process: files edited while a check runs must not split its cache
        return _KEY_CACHE[extra]
    k = _source_key(extra)
    _KEY_CACHE[extra] = k
    return k


def _source_key(extra=""):
    files = []
    for pat in ["src/**/*.rs", "Cargo.toml", "examples/**/*"]:
        files += glob.glob(os.path.join(REPO, pat), recursive=True)
    for pat in ["harness/src/*.rs", "harness/Cargo.toml", "harness/.cargo/config.toml", "spec/*.tla",
                "spec/*.cfg", "spec/mc/*", "proofs/*.tla", "tools/*.py", "tools/*.sh", "check", "known_findings.json"]:
        files += glob.glob(os.path.join(VERIF, pat), recursive=True)
    files = [f for f in files if os.path.isfile(f)]
    return hashlib.sha256((sha_files(files) + extra).encode()).hexdigest()[:24]


class Lock:
    def __init__(self, name):
        os.makedirs(OUT, exist_ok=True)
        self.path = os.path.join(OUT, name + ".lock")

    def __enter__(self):
        self.f = open(self.path, "w")
        fcntl.flock(self.f, fcntl.LOCK_EX)
        return self

    def __exit__(self, *a):
        fcntl.flock(self.f, fcntl.LOCK_UN)
        self.f.close()


def build_harness():
    """Rebuild the harness (and libmelda with hooks on) from /repo's current working tree."""
    with Lock("build"):
        lock_src = os.path.join(REPO, "Cargo.lock")
        if os.path.exists(lock_src):
            shutil.copyfile(lock_src, os.path.join(HARNESS, "Cargo.lock"))
        env = dict(os.environ, CARGO_NET_OFFLINE="true")
        t0 = time.time()
        p = subprocess.run(["cargo", "build", "--release", "--offline"], cwd=HARNESS, env=env,
                           stdout=subprocess.PIPE, stderr=subprocess.STDOUT, text=True)
        if p.returncode != 0:
            sys.stderr.write(p.stdout[-6000:])
            raise ToolError("harness build failed")
        log("harness built in %.1fs" % (time.time() - t0))


# ---------------------------------------------------------------- TLC

TLC_NOISE = re.compile(r"^(Parsing|Semantic|Linting|Picked up)")


def run_tlc(module, cfg, env=None, workers=1, xmx="3g", timeout=1800, extra=(), cwd=None, queue_deque=True):
    """Runs TLC; returns (rc, output)."""
    meta = os.path.join(OUT, "tlcmeta", "%d_%d" % (os.getpid(), int(time.time() * 1e6) % 10 ** 9))
    os.makedirs(meta, exist_ok=True)
    e = dict(os.environ)
    if env:
        e.update(env)
    jopts = "-Xss1g"
    if queue_deque:
        jopts += " -Dtlc2.tool.queue.IStateQueue=StateDeque"
    e["JAVA_TOOL_OPTIONS"] = jopts
    cmd = ["timeout", str(timeout), "java", "-Xmx" + xmx, "-XX:+UseParallelGC", "-cp", JAVA_CP, "tlc2.TLC",
           "-workers", str(workers), "-metadir", meta, "-cleanup", "-noGenerateSpecTE",
           "-config", cfg] + list(extra) + [module]
    p = subprocess.run(cmd, env=e, cwd=cwd or SPEC, stdout=subprocess.PIPE, stderr=subprocess.STDOUT, text=True)
    shutil.rmtree(meta, ignore_errors=True)
    out = "\n".join(l for l in p.stdout.splitlines() if l.strip() and not TLC_NOISE.match(l))
    return p.returncode, out


VIOL_RE = re.compile(r'^<<"VIOLATION", "([A-Za-z0-9_]+)", (\d+), (\d+), "([A-Za-z]+)", (\d+)>>')
COUNT_RE = re.compile(r'<<"([A-Za-z0-9_]+)", (\d+)>>')
STATS_RE = re.compile(r"(\d+) states generated, (\d+) distinct states found")


def validate_bundle(base, cfg="MeldaTrace.cfg", timeout=1800, module="MeldaTrace.tla", env=None):
    """TLC trace validation of one bundle; returns dict(violations, counts, consumed, total, states)."""
    env = env or {"TRACE": base + ".trace.ndjson", "ITEMS": base + ".items.ndjson", "REVS": base + ".revs.ndjson"}
    rc, out = run_tlc(os.path.join(SPEC, module), os.path.join(SPEC, cfg), env=env, timeout=timeout)
    res = {"violations": [], "counts": {}, "consumed": 0, "total": -1, "states": 0, "rc": rc, "bundle": base}
    for line in out.splitlines():
        m = VIOL_RE.match(line)
        if m:
            res["violations"].append({"pred": m.group(1), "run": int(m.group(2)), "i": int(m.group(3)),
                                      "op": m.group(4), "l": int(m.group(5)), "bundle": base})
        elif line.startswith('<<"CONSUMED"'):
            nums = re.findall(r"\d+", line)
            res["consumed"], res["total"] = int(nums[0]), int(nums[1])
        else:
            m = STATS_RE.search(line)
            if m:
                res["states"] = int(m.group(2))
    for n, c in re.findall(r'<<"((?:C\d\d|D|X)_[A-Za-z0-9_]+)", (\d+)>>', out):
        res["counts"][n] = int(c)
    if res["consumed"] != res["total"] or "Error:" in out:
        res["error"] = out[-3000:]
    return res


def validate_dir(d, cfg="MeldaTrace.cfg", jobs=None):
    bases = sorted(p[:-len(".trace.ndjson")] for p in glob.glob(os.path.join(d, "b*.trace.ndjson")))
    jobs = jobs or max(1, NCPU - 2)
    with ThreadPoolExecutor(max_workers=jobs) as ex:
        results = list(ex.map(lambda b: validate_bundle(b, cfg), bases))
    return results


def validate_fn_dir(d, jobs=None):
    """FnTrace validation of every shard written by `mvh fn`."""
    shards = sorted(glob.glob(os.path.join(d, "*.fn.ndjson")))
    revs = os.path.join(d, "revs.ndjson")
    jobs = jobs or max(1, NCPU - 2)
    with ThreadPoolExecutor(max_workers=jobs) as ex:
        return list(ex.map(lambda f: validate_bundle(f, "FnTrace.cfg", module="FnTrace.tla",
                                                     env={"TRACE": f, "REVS": revs}), shards))


def run_fn(which, out_dir, tier, seed, shards=12):
    os.makedirs(out_dir, exist_ok=True)
    p = subprocess.run([MVH, "fn", which, "--out", out_dir, "--size", tier, "--seed", str(seed), "--shards", str(shards)],
                       stdout=subprocess.PIPE, stderr=subprocess.STDOUT, text=True)
    if p.returncode != 0:
        raise ToolError("mvh fn %s failed: %s" % (which, p.stdout[-2000:]))
    return json.loads(p.stdout.strip().splitlines()[-1])


def run_hist(specs_path, out_dir, jobs=None, timeout_ms=10000, bundle=20):
    os.makedirs(out_dir, exist_ok=True)
    cmd = [MVH, "hist", "--specs", specs_path, "--out", out_dir, "--jobs", str(jobs or NCPU),
           "--timeout-ms", str(timeout_ms), "--bundle", str(bundle)]
    p = subprocess.run(cmd, stdout=subprocess.PIPE, stderr=subprocess.STDOUT, text=True)
    if p.returncode != 0:
        raise ToolError("mvh hist failed: " + p.stdout[-2000:])
    return json.load(open(os.path.join(out_dir, "summary.json")))


def gen_specs(path, seed, count, profile, base=0, append=False):
    p = subprocess.run([MVH, "gen", "--seed", str(seed), "--count", str(count), "--profile", profile,
                        "--base", str(base)], stdout=subprocess.PIPE, text=True)
    if p.returncode != 0:
        raise ToolError("mvh gen failed")
    with open(path, "a" if append else "w") as f:
        f.write(p.stdout)


def load_events(base, run, upto=None):
    evs = []
    with open(base + ".trace.ndjson") as f:
        for line in f:
            if '"run":%d,' % run not in line and '"run": %d,' % run not in line:
                continue
            e = json.loads(line)
            if e["run"] == run:
                evs.append(e)
    return evs


def find_spec(specs_path, run):
    with open(specs_path) as f:
        for line in f:
            if line.strip():
                s = json.loads(line)
                if s.get("run") == run:
                    return s
    return None
