HOOK_COMMITS = ["8a261fb", "adf09ea", "3fc3835"]
NOT_APPLICABLE = {}

COMMON = ("Decided with the TLA+ specification in spec/: (1) TLC model-checks the Level-I model of replicas "
          "(Melda.tla + MeldaMC.tla, shared definitions in MeldaCore.tla) for every interleaving within the bounds of "
          "the config(s) and shows the property holds on the design; (2) TLC-emitted schedules (one per distinct model "
          "state, sampled) and seeded random histories are executed in the real library by the harness, which records "
          "one event with the projected Observation per API call; (3) TLC validates every recorded event against the "
          "property's predicates in MeldaTrace.tla (antecedent counts prove non-vacuity). ")

LEVEL_TEXT = {
    "C01": COMMON + "Predicates: C01_SameItemsSameView (the view is a function of the set of valid items, across replicas, "
           "routes and time), C01_SyncReaches (bidirectional exchange until quiet reaches the common state). Exhaustive only "
           "within the model bounds; histories are sampled.",
    "C02": COMMON + "Predicates: C02_AppliedComplete, C02_RefreshApplies (applied = the spec's causally complete set, computed "
           "by TLC from the raw items), C02_RefreshEqualsReload (fresh replica on a byte copy), C02_HeldBackThenApplied, "
           "C02_HeldBackInvisible (heads and committed trees are those of the applied blocks alone); "
           "file-by-file delivery in seeded permutations with a refresh after every file; the in-memory object cache is part "
           "of the model (MC_cache.cfg) and of the histories (`cache` profile: bodies held only in memory must not make a "
           "block complete).",
    "C03": COMMON + "Predicate C03_Durable: after every successful commit a replica freshly opened on a copy of the storage "
           "shows the same view, heads, applied graph and document; generated JSON covers braces, quotes, backslashes, "
           "non-ASCII, nesting, all number kinds, several staged operations before the first commit.",
    "C04": COMMON + "Predicates C04_Exact (document digest after update equals the submitted document normalised with "
           "identifiers), C04_WeakUnderArrayConflict, C04_Idempotent, C04_EmptyCommit; model property P_C04_ReadAfterEdit "
           "over every abstract document in every model state.",
    "C05": COMMON + "Predicates C05_WinnerRule / C05_TreeFromBlocks on every observation (the rule is written out in "
           "RevOrder.tla on the recorded identifier bytes); function level: every generated tree shape under every insertion "
           "order (C05_TreeRule) and the comparison matrix over crafted identifiers (C05_OrderRule).",
    "C06": COMMON + "Function level: TLC shows the transcription of merge_arrays satisfies the C06 relation on every ordered "
           "pair of the bound (ArrayMergeMC), and the real merge_arrays is checked against the relation on every pair "
           "(exhaustive within the bound); system level: C06_ArrayView (no duplication, no ghosts, no loss, no invention, "
           "order) on every observation and C06_EditUnderConflict (an edit made during the conflict loses nothing).",
    "C07": COMMON + "Predicate C07_Resolve (not in conflict afterwards, adopts the chosen revision incl. deletions, choosing "
           "the winner changes nothing); C07_Propagates / C07_ResolvedConverge (C01's predicates on the histories in which "
           "something was resolved); model property P_C07_Resolve.",
    "C08": COMMON + "Every API call runs under a watchdog in a per-run rayon pool of size 1/2/4/16; C08_Returns demands "
           "outcome ok or error (a timeout or panic is a violation) for every operation of the alphabet appended to sampled "
           "model states (enabled or not) and for every call of every history. A deadlock that needs a particular "
           "interleaving of rayon workers inside one call is sampled, not excluded.",
    "C09": COMMON + "Crash enumeration: for commits and melds a fresh replica is opened on the storage after every prefix of "
           "the writes (C09_CrashAtomic); write failures at every position with retry (C09_FailedCommit, C09_RetryDurable); "
           "C09_CommitWriteOrder on the write log; model: CommitCrash / CommitFail / MeldCrash outcomes at every write boundary.",
    "C10": COMMON + "Driver faults (bit flip, truncation, emptying, deletion, injected junk names) followed by open / refresh / "
           "reload: C10_ErrorOrIntact (error, or exactly the intact causally complete subset as computed by TLC), "
           "C10_NoAlteredContent. One known finding (P10) is recognised by shape and reported as KNOWN-FINDING.",
    "C11": COMMON + "Predicates C11_Names (every item a replica writes hashes to its name, block index = highest parent + 1), "
           "C11_AppendOnly, C11_SameBytes (one digest per key across all replicas and time), on every event incl. relays "
           "through third replicas and commit metadata with floats.",
    "C12": COMMON + "Predicate C12_NoDocChange at every Commit (incl. auto-resolution), Snapshot, Meld, Export and idle "
           "Refresh/Reload; model property P_C12_NoDocChange; thorough tier also runs the spec mutants.",
    "C13": COMMON + "Predicates C13_Commit (one new block, parents = previous heads, index rule, sole head), C13_Graph "
           "(ancestor-closed, indices increase, heads), C13_ReadBack (get_delta vs raw bytes) on every observation.",
    "C14": COMMON + "Predicates C14_Travel (view at a head set equals the view recorded when those were the heads), "
           "C02_RefreshApplies for ReloadUntil (applied = ancestors), C14_Retrievable (every revision keeps value and parent).",
    "C15": COMMON + "Predicates C15_Unstage, C15_ExportReplay, C15_CommitCleans, C15_Guards; model properties P_C15_*.",
    "C16": COMMON + "Function level: make_diff_patch / apply_diff_patch on every pair of the bound (C16_DiffRoundTrip); "
           "system level: C16_Reconstructs (every stored version rebuilds with the spec's script semantics) and "
           "C16_StoredEqualsSubmitted; cache capacities 1, 2, 3, 16 through the multi-config runs.",
    "C17": "KVTrace.tla is the write-once key/value model; every call of seeded operation sequences (small values and 36-56 KiB "
           "incompressible values, keys ending in the wrappers' private suffixes, reopen of persistent backends) on 12 backend "
           "stacks is validated against it by TLC; the same replica histories run over 7 backend stacks in lock-step and "
           "MultiRun.tla demands equal views at every step. The Solid backend needs a network and is excluded.",
    "C18": "MultiRun.tla: the same seeded histories are executed under worker pools 1..16, permuted listing orders, cache "
           "capacities 1..3 and 16, and independently seeded hash tables (separate runs); TLC demands equal outcomes and "
           "views at every step. Sampled configurations, not all.",
    "C19": COMMON + "Function level: print/parse round trip of crafted and constructed identifiers (C19_RoundTrip), identifier = "
           "function of digest and parent (C19_Pure), comparison matrix against the rule and transitivity samples "
           "(C19_TotalOrder, C19_Transitive); system level C19_Canonical on every tree entry.",
}
DEFAULT_LEVEL_TEXT = COMMON
LEVEL_NOTE = ("Thorough tier adds larger BFS configs and, for C01/C03/C09/C13, random deep behaviours of the full model "
              "(tlc -simulate, 3 replicas, depth 30, every invariant and action property checked, sampled schedules replayed). "
              "Trusted: TLC 1.8.0; the harness projection (own SHA-256 / string-aware JSON splitting, independent of "
              "libmelda's parsers; its own edit-script applier); hooks H2/H3 (cross-checked against raw block files by "
              "C05_TreeFromBlocks); atomic item writes. Bounded: model bounds in spec/mc/*.cfg, sampled histories.")
TECHNIQUE = {
    "C01": "TLC model checking (Melda.tla) + TLC trace validation of recorded histories (MeldaTrace.tla)",
    "C06": "TLC: transcription of merge_arrays vs relation (exhaustive in bound) + trace validation of real outputs",
    "C16": "TLC trace validation of edit-script round trips (exhaustive in bound) and of stored array versions",
    "C17": "TLC trace validation against the KVStore model; lock-step multi-backend runs (MultiRun.tla)",
    "C18": "lock-step multi-configuration runs validated by TLC (MultiRun.tla)",
}
for _p in ["C02", "C03", "C04", "C05", "C07", "C08", "C09", "C10", "C11", "C12", "C13", "C14", "C15", "C19"]:
    TECHNIQUE.setdefault(_p, "TLC model checking (Melda.tla) + schedule replay + TLC trace validation (MeldaTrace.tla)")
NOTES = ("See DESIGN.md (section 14 = as built). Exit 0 held / 1 VIOLATION with replay file / 2 tool error (no verdict). "
         "known_findings.json lists P10 (not repaired) and 13 repaired defects.")
