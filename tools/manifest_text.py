HOOK_COMMITS = ["8a261fb", "adf09ea", "3fc3835"]
NOT_APPLICABLE = {}
DEFAULT_LEVEL_TEXT = ("The property is stated as TLA+ predicates (spec/MeldaTrace.tla, over the shared definitions of "
    "spec/MeldaCore.tla). TLC evaluates them at every step of traces recorded from the real library while it "
    "executes seeded multi-replica histories; a violated predicate names the property. Bounded: explored "
    "histories only.")
LEVEL_TEXT = {}
LEVEL_NOTE = ("Trusted: TLC 1.8.0; the harness projection (own SHA-256 / string-aware JSON splitting, independent of "
    "libmelda's parsers); hooks H2/H3 (cross-checked against raw block files by C05_TreeFromBlocks); atomic item writes.")
TECHNIQUE = {}
NOTES = "See DESIGN.md. Exit 2 = tool error (no verdict)."
