#!/bin/sh
# runs every quick check under several VERIF_SEED values; prints the ones that do not exit 0
cd /verif
for s in "$@"; do
  for p in C01 C02 C03 C04 C05 C06 C07 C08 C09 C10 C11 C12 C13 C14 C15 C16 C17 C18 C19; do
    out=$(VERIF_SEED=$s ./check $p --tier quick 2>&1); rc=$?
    if [ $rc -ne 0 ]; then echo "seed=$s $p rc=$rc"; echo "$out" | grep -E "VIOLATION|TOOL ERROR|Error" | head -5; fi
  done
  echo "seed $s done $(date +%T)"
done
