#!/bin/sh
# measures the model-checking configs given as arguments (names without MC_ prefix), 600 s cap each
for c in "$@"; do
  echo "== $c $(date +%T)"
  TLC_TIMEOUT=${CAP:-600} TLC_XMX=20g /verif/tools/mc.sh mc/MC_$c.cfg 15 2>&1 | grep -E "Progress|states generated|violated|Error|Finished|depth of" | tail -3 | cut -c1-200
done
