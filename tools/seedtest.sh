#!/bin/sh
# usage: seedtest.sh <patch.diff> <prop> [more props]  -- applies the patch to /repo, runs the quick checks, reverts
patch="$1"; shift
cd /verif
export VERIF_NO_EVIDENCE=1
git -C /repo diff --quiet || { echo "repo dirty"; exit 2; }
git -C /repo apply "$patch" || { echo "patch does not apply"; exit 2; }
for p in "$@"; do
  out=$(./check "$p" --tier "${TIER:-quick}" 2>/dev/null); rc=$?
  echo "$p rc=$rc $(echo "$out" | grep -c '^VIOLATION') violation lines; first: $(echo "$out" | grep '^VIOLATION' | head -2 | cut -c1-200)"
done
git -C /repo checkout -- .
