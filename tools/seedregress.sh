#!/bin/sh
# Re-runs every confirmed seeded change in /verif/seeded against the quick check of its property and
# records the outcome in seeded/RESULTS.md (applies each patch to /repo and reverts it afterwards).
cd /verif
export VERIF_NO_EVIDENCE=1
out=seeded/RESULTS.md
echo "# Seeded changes vs quick checks ($(date -u +%FT%TZ), /repo $(git -C /repo log --format=%h -1), /verif $(git log --format=%h -1))" > $out
echo "" >> $out
echo "| seed | property | exit | first violated predicate(s) |" >> $out
echo "|---|---|---|---|" >> $out
for d in seeded/*/; do
  n=$(basename $d); p=$(echo $n | cut -c1-3)
  if [ -n "$DEADLINE" ] && [ "$(date +%s)" -gt "$DEADLINE" ]; then echo "| $n | $p | not re-run in this regression (time limit) | |" >> $out; continue; fi
  git -C /repo diff --quiet || { echo "repo dirty"; exit 2; }
  git -C /repo apply /verif/$d/patch.diff || { echo "| $n | $p | patch does not apply | |" >> $out; continue; }
  res=$(./check $p --tier quick 2>/dev/null); rc=$?
  git -C /repo checkout -- .
  preds=$(echo "$res" | grep '^VIOLATION' | sed 's/.*predicate=\([A-Za-z0-9_]*\).*/\1/' | sort -u | head -4 | tr '\n' ' ')
  echo "| $n | $p | $rc | $preds |" >> $out
  echo "$n rc=$rc $preds"
done
