#!/usr/bin/env python3
"""Turns the schedules printed by TLC for spec/MeldaMC.tla (EmitSched) into run specifications for
`mvh hist`: abstract documents become JSON documents, abstract items are addressed by the commit
number that wrote them."""
import json, re, sys

FLAT = "♭"


def doc_of(d):
    doc = {"v": d["rv"]}
    for k in sorted(d["ks"]):
        doc[k + FLAT] = [{"_id": e, "v": d["ev"][e]} for e in d["ord"][k]]
    return doc


def obj_id(o):
    if o == "root":
        return "√"
    if o.startswith("arr_"):
        return "^√@" + o[4:] + FLAT
    return o


def concretise(ops):
    out = []
    for op in ops:
        n = op["op"]
        if n == "update":
            out.append({"op": "update", "r": op["r"], "doc": doc_of(op["d"])})
        elif n == "commit":
            c = {"op": "commit", "r": op["r"], "crashenum": True}
            for k in ("bn", "crash_at", "fail"):
                if k in op:
                    c[k] = op[k]
            out.append(c)
        elif n == "resolve_by":
            c = {"op": "resolve_by", "r": op["r"], "o": obj_id(op["o"]), "idx": op["idx"], "k": op["k"]}
            if op["k"] in ("v", "R"):
                c["val"] = op["v"]
            out.append(c)
        elif n in ("copy_item", "damage_item"):
            c = {"op": n, "r": op["r"], "kind": op["kind"], "bn": op["name"][2]}
            if "s" in op:
                c["s"] = op["s"]
            if "how" in op:
                c["how"] = op["how"]
            out.append(c)
        elif n == "reload_until_set":
            out.append({"op": n, "r": op["r"], "bns": sorted(h[2] for h in op["H"])})
        elif n == "meld":
            c = {"op": "meld", "r": op["r"], "s": op["s"], "crashenum": True}
            if "crash_at" in op:
                c["crash_at"] = op["crash_at"]
            out.append(c)
        elif n in ("obj_create", "obj_update", "obj_delete", "obj_remove"):
            out.append({"op": n, "r": op["r"], "o": op["o"], "val": op["val"]})
        else:
            out.append({"op": n, "r": op["r"]})
    return out


def parse_tlc_output(text):
    """Yields the schedules (lists of abstract ops) printed as <<"SCHED", "json">>."""
    for m in re.finditer(r'<<"SCHED", "((?:[^"\\]|\\.)*)">>', text):
        raw = m.group(1).encode().decode("unicode_escape")
        try:
            yield json.loads(raw)
        except json.JSONDecodeError:
            continue


def maximal(scheds):
    """Schedules that are not a proper prefix of another one (every state lies on one of them)."""
    keys = [json.dumps(s, sort_keys=True)[:-1] for s in scheds]
    keyset = set()
    for s in scheds:
        for i in range(len(s)):
            keyset.add(json.dumps(s[:i], sort_keys=True))
    return [s for s in scheds if json.dumps(s, sort_keys=True) not in keyset]


if __name__ == "__main__":
    text = open(sys.argv[1]).read()
    ss = list(parse_tlc_output(text))
    print(len(ss), "schedules,", len(maximal(ss)), "maximal", file=sys.stderr)
    for i, s in enumerate(ss[:5]):
        print(json.dumps(concretise(s)))
