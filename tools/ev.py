#!/usr/bin/env python3
# usage: ev.py <bundle-base> <run> <i>  -- print an event compactly
import sys, json
base, run, i = sys.argv[1], int(sys.argv[2]), int(sys.argv[3])
items = {}
for l in open(base + '.items.ndjson'):
    r = json.loads(l); items[r['tok']] = r
def short(o, depth=0):
    return o
for l in open(base + '.trace.ndjson'):
    e = json.loads(l)
    if e['run'] == run and e['i'] == i:
        print('op', e['op'], e['r'], 'res', e['res'], 'a', json.dumps(e['a'])[:600])
        def show(name, o):
            if 'items' not in o: print(name, o); return
            print('--', name, 'staging', o['staging'], 'heads', o['heads'], 'open', o.get('open'))
            for t in o['items']:
                it = items[t]; print('   item', it['key'][:30], it['kind'], 'hashok', it['hashok'], 'wf', it['wf'], 'idx', it['idx'], 'par', [p[:10] for p in it['parents']], 'packs', [p[:8] for p in it['packs']], 'nch', len(it['changes']), 'nobj', len(it['objs']))
                if '-v' in sys.argv:
                    for c in it['changes']: print('        ch', c['o'][:30], c['rev'][:24], '<-', c['prev'][:24])
            print('   status', {k[:12]: v for k, v in o['status'].items()})
            for ob, t in o['trees'].items():
                print('   tree', ob[:40], 'W', o['winner'][ob][:20], 'C', [c[:14] for c in o['confl'][ob]], [(r['rev'][:16], r['par'][:12], r['st']) for r in t])
            print('   inconf', o['inconf'])
            print('   doc', json.dumps(o['doc'])[:500])
        show('obs', e.get('obs', {}))
        for k, v in e.get('x', {}).items():
            if k == 'fresh': show('fresh', v)
            elif k == 'crash':
                for s in v: show('crash k=%d' % s['k'], s['fresh'])
            else: print('x.' + k, json.dumps(v)[:1500])
