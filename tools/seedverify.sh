#!/bin/sh
# usage: seedverify.sh <worktree> <name>  -- confirms a seeded change (tests pass, demo fails with / passes without), stores it in /verif/seeded/<name>
wt="$1"; name="$2"
cd "$wt" || exit 2
export CARGO_NET_OFFLINE=true
lib=$(cargo test --offline --lib 2>&1 | grep "^test result" | head -1)
doc=$(cargo test --offline --doc 2>&1 | grep "^test result" | tail -1)
cargo test --offline --test demo >/tmp/seed/$name.with.log 2>&1; with=$?
git stash push -q -- src Cargo.toml 2>/dev/null || git stash push -q -- src
cargo test --offline --test demo >/tmp/seed/$name.without.log 2>&1; without=$?
git stash pop -q
echo "$name lib: $lib | doc: $doc | demo with change rc=$with | without rc=$without"
if [ "$with" != "0" ] && [ "$without" = "0" ] && echo "$lib" | grep -q "32 passed; 0 failed"; then
  mkdir -p /verif/seeded/$name
  cp deliver/patch.diff /verif/seeded/$name/patch.diff
  cp tests/demo.rs /verif/seeded/$name/demo.rs
  cp deliver/meta.json /verif/seeded/$name/agent_meta.json
  echo "  confirmed -> /verif/seeded/$name"
else
  echo "  NOT confirmed"
fi
