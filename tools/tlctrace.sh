#!/bin/sh
# usage: tlctrace.sh <bundle-base> [extra tlc args]   (runs TLC trace validation on one bundle)
base="$1"; shift
TRACE="$base.trace.ndjson" ITEMS="$base.items.ndjson" REVS="$base.revs.ndjson" \
JAVA_TOOL_OPTIONS="-Xss1g -Dtlc2.tool.queue.IStateQueue=StateDeque" \
exec timeout "${TLC_TIMEOUT:-900}" java -Xmx${TLC_XMX:-3g} -XX:+UseParallelGC -cp /opt/veriftools/tla/tla2tools.jar:/opt/veriftools/tla/CommunityModules-deps.jar tlc2.TLC -workers 1 -metadir "/verif/out/tlcmeta/$$" -cleanup -noGenerateSpecTE -continue -config "${TRACE_CFG:-/verif/spec/MeldaTrace.cfg}" /verif/spec/MeldaTrace.tla "$@"
