---- MODULE ArrayChainMC_TTrace_1790399085 ----
EXTENDS Sequences, TLCExt, Toolbox, Naturals, TLC, ArrayChainMC

_expression ==
    LET ArrayChainMC_TEExpression == INSTANCE ArrayChainMC_TEExpression
    IN ArrayChainMC_TEExpression!expression
----

_trace ==
    LET ArrayChainMC_TETrace == INSTANCE ArrayChainMC_TETrace
    IN ArrayChainMC_TETrace!trace
----

_inv ==
    ~(
        TLCGet("level") = Len(_TETrace)
        /\
        cache = (<<<<5, <<"order", 5>>>>, <<3, <<"order", 4>>>>>>)
        /\
        last = ([v |-> 5, res |-> <<"order", 5>>])
    )
----

_init ==
    /\ last = _TETrace[1].last
    /\ cache = _TETrace[1].cache
----

_next ==
    /\ \E i,j \in DOMAIN _TETrace:
        /\ \/ /\ j = i + 1
              /\ i = TLCGet("level")
        /\ last  = _TETrace[i].last
        /\ last' = _TETrace[j].last
        /\ cache  = _TETrace[i].cache
        /\ cache' = _TETrace[j].cache

\* Uncomment the ASSUME below to write the states of the error trace
\* to the given file in Json format. Note that you can pass any tuple
\* to `JsonSerialize`. For example, a sub-sequence of _TETrace.
    \* ASSUME
    \*     LET J == INSTANCE Json
    \*         IN J!JsonSerialize("ArrayChainMC_TTrace_1790399085.json", _TETrace)

=============================================================================

 Note that you can extract this module `ArrayChainMC_TEExpression`
  to a dedicated file to reuse `expression` (the module in the 
  dedicated `ArrayChainMC_TEExpression.tla` file takes precedence 
  over the module `ArrayChainMC_TEExpression` below).

---- MODULE ArrayChainMC_TEExpression ----
EXTENDS Sequences, TLCExt, Toolbox, Naturals, TLC, ArrayChainMC

expression == 
    [
        \* To hide variables of the `ArrayChainMC` spec from the error trace,
        \* remove the variables below.  The trace will be written in the order
        \* of the fields of this record.
        last |-> last
        ,cache |-> cache
        
        \* Put additional constant-, state-, and action-level expressions here:
        \* ,_stateNumber |-> _TEPosition
        \* ,_lastUnchanged |-> last = last'
        
        \* Format the `last` variable as Json value.
        \* ,_lastJson |->
        \*     LET J == INSTANCE Json
        \*     IN J!ToJson(last)
        
        \* Lastly, you may build expressions over arbitrary sets of states by
        \* leveraging the _TETrace operator.  For example, this is how to
        \* count the number of times a spec variable changed up to the current
        \* state in the trace.
        \* ,_lastModCount |->
        \*     LET F[s \in DOMAIN _TETrace] ==
        \*         IF s = 1 THEN 0
        \*         ELSE IF _TETrace[s].last # _TETrace[s-1].last
        \*             THEN 1 + F[s-1] ELSE F[s-1]
        \*     IN F[_TEPosition - 1]
    ]

=============================================================================



Parsing and semantic processing can take forever if the trace below is long.
 In this case, it is advised to uncomment the module below to deserialize the
 trace from a generated binary file.

\*
\*---- MODULE ArrayChainMC_TETrace ----
\*EXTENDS IOUtils, TLC, ArrayChainMC
\*
\*trace == IODeserialize("ArrayChainMC_TTrace_1790399085.bin", TRUE)
\*
\*=============================================================================
\*

---- MODULE ArrayChainMC_TETrace ----
EXTENDS TLC, ArrayChainMC

trace == 
    <<
    ([cache |-> <<>>,last |-> [v |-> 0, res |-> "empty"]]),
    ([cache |-> <<>>,last |-> [v |-> 1, res |-> <<"order", 1>>]]),
    ([cache |-> <<<<5, <<"order", 5>>>>, <<3, <<"order", 4>>>>>>,last |-> [v |-> 5, res |-> <<"order", 5>>]])
    >>
----


=============================================================================

---- CONFIG ArrayChainMC_TTrace_1790399085 ----
CONSTANTS
    N <- NDef
    Par <- ParDef
    Kind <- KindDef
    Shape = 2
    K = 3
    Bug = { "cache_off_by_one" }

INVARIANT
    _inv

CHECK_DEADLOCK
    \* CHECK_DEADLOCK off because of PROPERTY or INVARIANT above.
    FALSE

INIT
    _init

NEXT
    _next

CONSTANT
    _TETrace <- _trace

ALIAS
    _expression
=============================================================================
\* Generated on Sat Sep 26 05:04:46 UTC 2026