SPECIFICATION Spec
CHECK_DEADLOCK FALSE
POSTCONDITION Accepted
INVARIANT AllChecks
