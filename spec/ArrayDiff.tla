----------------------------- MODULE ArrayDiff -----------------------------
(***************************************************************************)
(* C16 at function level: the semantics of stored edit scripts.  A script  *)
(* is a sequence of records [k, n, i, items] applied left to right:        *)
(*   k = "d": remove n elements starting at 0-based index i                *)
(*   k = "i": insert `items` at 0-based index i                            *)
(***************************************************************************)
EXTENDS Naturals, Sequences

ApplyOp(s, op) ==
    IF op.k = "d" THEN SubSeq(s, 1, op.i) \o SubSeq(s, op.i + op.n + 1, Len(s))
    ELSE SubSeq(s, 1, op.i) \o op.items \o SubSeq(s, op.i + 1, Len(s))
OpOK(s, op) == IF op.k = "d" THEN op.i + op.n <= Len(s) ELSE op.i <= Len(s)
RECURSIVE Apply(_, _)
Apply(s, script) == IF script = <<>> THEN s ELSE Apply(ApplyOp(s, Head(script)), Tail(script))
RECURSIVE WellFormed(_, _)
WellFormed(s, script) == script = <<>> \/ (OpOK(s, Head(script)) /\ WellFormed(ApplyOp(s, Head(script)), Tail(script)))
=============================================================================
