INIT Init
NEXT Next
CONSTANTS
  Syms = {"a", "b", "c", "d"}
  MaxLen = 4
