------------------------------ MODULE RevOrder ------------------------------
(***************************************************************************)
(* The C05 order on recorded revision identifiers, written out in TLA+:    *)
(* resolution markers lowest; then longer history (index) first; ties by   *)
(* byte-wise comparison of the identifier text.  RevT is the side table    *)
(* written by the harness: one record per identifier with its index,       *)
(* digest, digest kind, tail, the first 7 hex digits of the SHA-256 of its *)
(* text (tailof) and the bytes of its text.                                *)
(***************************************************************************)
EXTENDS Naturals, Sequences, TLC

CONSTANTS RevT,    \* the side table (a sequence of records)
          RevIx    \* identifier text -> position in RevT (defined in the root module so that TLC evaluates it once)

RevRec(r)  == RevT[RevIx[r]]

RECURSIVE LexLess(_, _, _)
LexLess(a, b, i) ==
    IF i > Len(a) THEN i <= Len(b)
    ELSE IF i > Len(b) THEN FALSE
    ELSE IF a[i] # b[i] THEN a[i] < b[i]
    ELSE LexLess(a, b, i + 1)

TIdx(r)   == RevRec(r).idx
TIsRes(r) == RevRec(r).kind = "r"
TIsDel(r) == RevRec(r).kind = "d"
TSpecial(r) == RevRec(r).kind \in {"r", "d", "e", "c"}
TDig(r)   == RevRec(r).dig
TRevLess(a, b) ==
    /\ a # b
    /\ IF TIsRes(a) /\ TIsRes(b) THEN LexLess(RevRec(a).bytes, RevRec(b).bytes, 1)
       ELSE IF TIsRes(a) THEN TRUE
       ELSE IF TIsRes(b) THEN FALSE
       ELSE IF TIdx(a) # TIdx(b) THEN TIdx(a) < TIdx(b)
       ELSE LexLess(RevRec(a).bytes, RevRec(b).bytes, 1)
=============================================================================
