------------------------------ MODULE MultiRun ------------------------------
(***************************************************************************)
(* C18 / C17: the same history executed under k configurations advances in *)
(* lock-step; at every step all runs must show the same outcome and the    *)
(* same view (objects, winners, conflicts, document).  Each record of the  *)
(* trace holds the k views recorded for one step of one history.           *)
(*   dim = "config"  : worker-pool sizes, listing orders, cache capacities, *)
(*                     independently seeded hash tables (C18)              *)
(*   dim = "backend" : storage backends and compression wrappers (C17)     *)
(***************************************************************************)
EXTENDS Json, IOUtils, TLC, Sequences, Naturals, FiniteSets

Rec == ndJsonDeserialize(IOEnv.TRACE)
VARIABLE l
Init == l = 1 /\ \A i \in 1..4 : TLCSet(i, 0)
Next == l < Len(Rec) /\ l' = l + 1
Spec == Init /\ [][Next]_l
E == Rec[l]
AllEqual(s) == \A i, j \in DOMAIN s : s[i] = s[j]
Complete == Len(E.views) = Len(E.cfgs)         \* every configuration produced this step

C18_SameOutcome_A == E.dim = "config"
C18_SameOutcome_C == Complete /\ AllEqual(E.views)
C17_SameOverBackends_A == E.dim = "backend"
C17_SameOverBackends_C == Complete /\ AllEqual(E.views)

Chk(k, name, a, c) ==
    IF a THEN /\ TLCSet(k, TLCGet(k) + 1)
              /\ (c \/ PrintT(<<"VIOLATION", name, E.run, E.i, E.op, l>>))
    ELSE TRUE
Names == <<"C18_SameOutcome", "C17_SameOverBackends">>
AllChecks ==
    /\ Chk(1, Names[1], C18_SameOutcome_A, C18_SameOutcome_C)
    /\ Chk(2, Names[2], C17_SameOverBackends_A, C17_SameOverBackends_C)
Accepted ==
    /\ PrintT(<<"COUNTS", [i \in 1..Len(Names) |-> <<Names[i], TLCGet(i)>>]>>)
    /\ PrintT(<<"CONSUMED", TLCGet("stats").diameter, Len(Rec)>>)
    /\ TLCGet("stats").diameter = Len(Rec)
=============================================================================
