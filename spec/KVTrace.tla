------------------------------ MODULE KVTrace ------------------------------
(***************************************************************************)
(* C17: the write-once key/value contract every storage backend must       *)
(* implement (KVStore model) and validation of recorded backend calls      *)
(* against it.  kv[b] is the abstract content of backend stack b: a        *)
(* function from keys to byte sequences.                                   *)
(*   Write(k, v)        kv' = IF k \in DOMAIN kv THEN kv ELSE kv + (k:>v)  *)
(*   Read(k)            the bytes of the first write, or an error if absent*)
(*   Slice(k, off, len) any non-empty in-range slice of those bytes        *)
(*   List(ext)          exactly the keys ending in ext, with ext removed   *)
(*   Reopen             persistent backends keep kv                        *)
(***************************************************************************)
EXTENDS Json, IOUtils, TLC, Sequences, Naturals, FiniteSets

Rec == ndJsonDeserialize(IOEnv.TRACE)
Rng(s) == {s[i] : i \in DOMAIN s}

VARIABLES l, kv, kvp
vars == <<l, kv, kvp>>

EndsWith(k, ext) == Len(k) >= Len(ext) /\ SubSeq(k, Len(k) - Len(ext) + 1, Len(k)) = ext
Strip(k, ext) == SubSeq(k, 1, Len(k) - Len(ext))

Fresh(e) == [b \in Rng(e.stacks) |-> <<>>]
Apply(m, e) ==
    IF e.op = "reset" THEN Fresh(e)
    ELSE IF e.op = "Write" /\ e.res = "ok" /\ e.k \notin DOMAIN m[e.be]
         THEN [m EXCEPT ![e.be] = (e.k :> e.v) @@ @]
    ELSE m

Init == l = 1 /\ Rec[1].op = "reset" /\ kv = Fresh(Rec[1]) /\ kvp = Fresh(Rec[1]) /\ \A i \in 1..10 : TLCSet(i, 0)
Next == l < Len(Rec) /\ l' = l + 1 /\ kv' = Apply(kv, Rec[l + 1]) /\ kvp' = kv
Spec == Init /\ [][Next]_vars

E == Rec[l]
Op(n) == E.op = n
M == kvp[E.be]          \* content of the backend before the call
Has == E.k \in DOMAIN M

C17_Open_A == Op("reset")
C17_Open_C == \A i \in DOMAIN E.opened : E.opened[i] = "ok"
C17_Write_A == Op("Write")
C17_Write_C == E.res = "ok"
C17_Read_A == Op("Read")
C17_Read_C == IF Has THEN E.res = "ok" /\ E.v = M[E.k] ELSE E.res = "err"
\* a non-empty in-range slice returns exactly those bytes; out-of-range slices are outside the contract
\* except that they must not abort the caller
C17_Slice_A == Op("Slice")
C17_Slice_C ==
    IF Has /\ E.off + E.len <= Len(M[E.k]) THEN E.res = "ok" /\ E.v = SubSeq(M[E.k], E.off + 1, E.off + E.len)
    ELSE IF ~Has THEN E.res = "err"
    ELSE TRUE
C17_List_A == Op("List")
C17_List_C ==
    /\ E.res = "ok"
    /\ Rng(E.list) = {Strip(k, E.ext) : k \in {x \in DOMAIN M : EndsWith(x, E.ext)}}
    /\ Len(E.list) = Cardinality(Rng(E.list))
C17_Reopen_A == Op("Reopen")
C17_Reopen_C == E.res = "ok"

Chk(k, name, a, c) ==
    IF a THEN /\ TLCSet(k, TLCGet(k) + 1)
              /\ (c \/ PrintT(<<"VIOLATION", name, E.seq, l, E.op, l>>))
    ELSE TRUE
Names == <<"C17_Open", "C17_Write", "C17_Read", "C17_Slice", "C17_List", "C17_Reopen">>
AllChecks ==
    /\ Chk(1, Names[1], C17_Open_A, C17_Open_C)
    /\ Chk(2, Names[2], C17_Write_A, C17_Write_C)
    /\ Chk(3, Names[3], C17_Read_A, C17_Read_C)
    /\ Chk(4, Names[4], C17_Slice_A, C17_Slice_C)
    /\ Chk(5, Names[5], C17_List_A, C17_List_C)
    /\ Chk(6, Names[6], C17_Reopen_A, C17_Reopen_C)
Accepted ==
    /\ PrintT(<<"COUNTS", [i \in 1..Len(Names) |-> <<Names[i], TLCGet(i)>>]>>)
    /\ PrintT(<<"CONSUMED", TLCGet("stats").diameter, Len(Rec)>>)
    /\ TLCGet("stats").diameter = Len(Rec)
=============================================================================
