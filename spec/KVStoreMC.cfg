SPECIFICATION Spec
CONSTANTS
  Keys = {"k1", "k2", "k3"}
  Vals = {1, 2}
INVARIANT FirstWriteWins
PROPERTY AppendOnly
CHECK_DEADLOCK FALSE
