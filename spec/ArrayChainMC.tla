---------------------------- MODULE ArrayChainMC ----------------------------
(* Version trees for ArrayChain: a chain with a fork, a chain through a deletion (a key that was
   dropped and re-created), a chain with a full snapshot in the middle. *)
EXTENDS ArrayChain
CONSTANT Shape
NDef == 7
ParDef == CASE Shape = 1 -> <<0, 1, 2, 3, 4, 2, 6>>        \* 1 <- 2 <- 3 <- 4 <- 5 and fork 2 <- 6 <- 7
            [] Shape = 2 -> <<0, 1, 2, 3, 4, 5, 6>>        \* 1 <- 2 <- 3(deleted) <- 4 <- 5 <- 6 <- 7
            [] Shape = 3 -> <<0, 1, 2, 3, 4, 3, 6>>        \* snapshot (full) at 4, fork at 3
KindDef == CASE Shape = 1 -> <<"A", "a", "a", "a", "a", "a", "a">>
             [] Shape = 2 -> <<"A", "a", "d", "a", "a", "a", "a">>
             [] Shape = 3 -> <<"A", "a", "a", "A", "a", "a", "a">>
=============================================================================
