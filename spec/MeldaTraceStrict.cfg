SPECIFICATION Spec
CHECK_DEADLOCK FALSE
POSTCONDITION Accepted
INVARIANTS
  C08_Returns
  C05_WinnerRule
  C05_TreeFromBlocks
  C02_AppliedComplete
  C02_RefreshApplies
  C02_RefreshEqualsReload
  C02_HeldBackThenApplied
  C13_Graph
  C13_Commit
  C13_ReadBack
  C11_Names
  C11_AppendOnly
  C11_SameBytes
  C01_SameItemsSameView
  C01_SyncReaches
  C03_Durable
  C04_Exact
  C04_WeakUnderArrayConflict
  C04_Idempotent
  C04_EmptyCommit
  C06_ArrayView
  C16_Reconstructs
  C16_StoredEqualsSubmitted
  C07_Resolve
  C09_CommitWriteOrder
  C09_CrashAtomic
  C09_FailedCommit
  C10_ErrorOrIntact
  C10_NoAlteredContent
  C12_NoDocChange
  C14_Travel
  C14_Retrievable
  C15_CommitCleans
  C15_Guards
  C15_Unstage
  C15_ExportReplay
  C19_Canonical
  C19_LeafOrderTotal
  C09_RetryDurable
  C15_StageComplete
