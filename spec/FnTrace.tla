------------------------------ MODULE FnTrace ------------------------------
(***************************************************************************)
(* Function-level trace validation: every line is one call of a real       *)
(* libmelda function (through hook H1) with its input and output; the      *)
(* predicates are the relations the properties demand of those outputs.    *)
(*   env TRACE, REVS                                                       *)
(***************************************************************************)
EXTENDS Json, IOUtils, TLC, Sequences, Integers, FiniteSets, SequencesExt

Rec  == ndJsonDeserialize(IOEnv.TRACE)
RevT == ndJsonDeserialize(IOEnv.REVS)
RevIx == [t \in {RevT[i].rev : i \in DOMAIN RevT} |-> CHOOSE i \in DOMAIN RevT : RevT[i].rev = t]
INSTANCE RevOrder
NoRev == ""
Core == INSTANCE MeldaCore WITH RevLess <- TRevLess, Idx <- TIdx, IsRes <- TIsRes,
                                SpecialRev <- TSpecial, DigOf <- TDig, NoRev <- NoRev
AM == INSTANCE ArrayMerge
AD == INSTANCE ArrayDiff
Rng(s) == {s[i] : i \in DOMAIN s}

VARIABLE l
Init == l = 1 /\ \A i \in 1..20 : TLCSet(i, 0)
Next == l < Len(Rec) /\ l' = l + 1
Spec == Init /\ [][Next]_l
E == Rec[l]
Op(n) == E.op = n

(* C06 *)
C06_MergeOK_A == Op("Merge")
C06_MergeOK_C == ~E.panic /\ AM!MergeOK(E.m, E.n, E.out)
C06_FoldOK_A == Op("Merge3")
C06_FoldOK_C == ~E.panic /\ AM!FoldOK({E.a, E.b}, E.n, E.out)
\* Level-I drift (not a property): the real output equals the transcription used by the model
D_MergeTranscription_A == Op("Merge")
D_MergeTranscription_C == E.out = AM!Merge(E.m, E.n)

(* C16 *)
C16_DiffRoundTrip_A == Op("Diff")
C16_DiffRoundTrip_C == E.res = "ok" /\ E.out = E.new
D_ScriptSemantics_A == Op("Diff") /\ E.res = "ok"
D_ScriptSemantics_C == AD!WellFormed(E.old, E.script) /\ AD!Apply(E.old, E.script) = E.out

(* C19 / C05 *)
C19_RoundTrip_A == Op("Rev")
C19_RoundTrip_C ==
    /\ E.ok /\ E.printed = E.rev
    /\ RevRec(E.rev).wf
    /\ E.idx = TIdx(E.rev) /\ E.dig = TDig(E.rev)
    /\ E.res = TIsRes(E.rev) /\ E.del = TIsDel(E.rev)
C19_Pure_A == Op("Child")
C19_Pure_C ==
    /\ RevRec(E.child).wf /\ RevRec(E.parent).wf
    /\ TIdx(E.child) = TIdx(E.parent) + 1
    /\ TDig(E.child) = E.dig
    /\ RevRec(E.child).tail = RevRec(E.parent).tailof
OrderAgrees ==
    /\ (E.cmp = -1) = TRevLess(E.a, E.b)
    /\ (E.cmp = 1) = TRevLess(E.b, E.a)
    /\ (E.cmp = 0) = (E.a = E.b)
    /\ E.eq = (E.a = E.b)
    /\ (E.a = E.b => E.hasheq)
C19_TotalOrder_A == Op("Cmp")
C19_TotalOrder_C == OrderAgrees
C05_OrderRule_A == Op("Cmp")
C05_OrderRule_C == OrderAgrees
C19_Transitive_A == Op("Trans")
C19_Transitive_C == (E.ab /\ E.bc) => E.ac

(* C05 *)
TreeOf(es) == {[rev |-> x.rev, par |-> x.par, st |-> x.st] : x \in Rng(es)}
C05_TreeRule_A == Op("Tree")
C05_TreeRule_C ==
    /\ ~E.panic
    /\ Rng(E.leafs) = Core!LiveLeaves(TreeOf(E.entries))
    /\ E.winner = Core!Winner(TreeOf(E.entries))

Chk(k, name, a, c) ==
    IF a THEN /\ TLCSet(k, TLCGet(k) + 1)
              /\ (c \/ PrintT(<<"VIOLATION", name, 0, l, E.op, l>>))
    ELSE TRUE
Names == <<"C06_MergeOK", "C06_FoldOK", "D_MergeTranscription", "C16_DiffRoundTrip", "D_ScriptSemantics",
           "C19_RoundTrip", "C19_Pure", "C19_TotalOrder", "C05_OrderRule", "C19_Transitive", "C05_TreeRule">>
AllChecks ==
    /\ Chk(1, Names[1], C06_MergeOK_A, C06_MergeOK_C)
    /\ Chk(2, Names[2], C06_FoldOK_A, C06_FoldOK_C)
    /\ Chk(3, Names[3], D_MergeTranscription_A, D_MergeTranscription_C)
    /\ Chk(4, Names[4], C16_DiffRoundTrip_A, C16_DiffRoundTrip_C)
    /\ Chk(5, Names[5], D_ScriptSemantics_A, D_ScriptSemantics_C)
    /\ Chk(6, Names[6], C19_RoundTrip_A, C19_RoundTrip_C)
    /\ Chk(7, Names[7], C19_Pure_A, C19_Pure_C)
    /\ Chk(8, Names[8], C19_TotalOrder_A, C19_TotalOrder_C)
    /\ Chk(9, Names[9], C05_OrderRule_A, C05_OrderRule_C)
    /\ Chk(10, Names[10], C19_Transitive_A, C19_Transitive_C)
    /\ Chk(11, Names[11], C05_TreeRule_A, C05_TreeRule_C)
Accepted ==
    /\ PrintT(<<"COUNTS", [i \in 1..Len(Names) |-> <<Names[i], TLCGet(i)>>]>>)
    /\ PrintT(<<"CONSUMED", TLCGet("stats").diameter, Len(Rec)>>)
    /\ TLCGet("stats").diameter = Len(Rec)
=============================================================================
