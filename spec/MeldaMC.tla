------------------------------ MODULE MeldaMC ------------------------------
(***************************************************************************)
(* Properties of the Level-I model (Melda.tla): the design check.          *)
(* State invariants I_Cxx_* and action properties A_Cxx_* (formulas        *)
(* [][...]_vars evaluated by TLC on every explored transition; they read   *)
(* the hidden variable act' to know which operation the step was).         *)
(* EmitSched prints one schedule per distinct state for replay in the real *)
(* library.                                                                *)
(***************************************************************************)
EXTENDS Melda

CONSTANT EmitK     \* schedule emission prints one state in EmitK (1 = every distinct state)

CCNames(S) == Core!Names(Core!CC(S))
NoDamage == cnt.damage = 0
ValidItems(S) == {i \in S : i.ok}

-----------------------------------------------------------------------------
(* State invariants *)

\* C02: nothing is applied that is not causally complete
I_C02_AppliedComplete ==
    \A r \in Replica : up[r] =>
        /\ applied[r] \subseteq Core!Names(Core!CC(known[r] \cup apacks[r]))
        /\ (NoDamage => applied[r] \subseteq CCNames(store[r]))

\* C13: applied blocks form an ancestor-closed graph with increasing indices
I_C13_Graph ==
    \A r \in Replica : up[r] =>
        /\ Core!AncestorClosed(MemBlocks(r))
        /\ Core!IndexRule(MemBlocks(r))

\* C01: replicas holding the same valid items, fully applied and with nothing staged, show the same state
Settled(r) == Quiescent(r) /\ applied[r] = CCNames(store[r])
I_C01_Converge ==
    \A r, s \in Replica :
        (NoDamage /\ Settled(r) /\ Settled(s) /\ ValidItems(store[r]) = ValidItems(store[s]))
            => ViewRec(r) = ViewRec(s)

\* C03: a settled replica shows what a freshly opened replica would show
FreshView(S) == ViewM(FreshMem(Core!CC(S)))
I_C03_Durable ==
    \A r \in Replica : (NoDamage /\ Settled(r)) => FreshView(store[r]) = ViewRec(r)

\* C09: a block a replica wrote is complete in its own storage (pack before block)
I_C09_OwnBlocksComplete ==
    NoDamage => \A r \in Replica : \A b \in BlocksOf(store[r]) : b.name[2] = r => b.name \in CCNames(store[r])
\* C09: staged revisions never lose their objects (a failed commit keeps the stage usable)
I_C09_StageKeepsObjects ==
    \A r \in Replica : up[r] =>
        \A o \in Obj : \A rev \in staged[r][o] : Storable(Last(rev)) => Last(rev) \in sobjs[r] \cup AvailMem(r)

\* C06: the document shows every element at most once, no deleted element, and loses no live element
ShownElems(doc) == IF ~doc.ok THEN <<>> ELSE
    LET RECURSIVE Cat(_)
        Cat(i) == IF i > Len(doc.arrs) THEN <<>> ELSE [j \in 1..Len(doc.arrs[i].seq) |-> doc.arrs[i].seq[j][1]] \o Cat(i + 1)
    IN Cat(1)
I_C06_ArrayView ==
    \A r \in Replica : up[r] /\ Doc(r).ok =>
        LET sh == ShownElems(Doc(r)) IN
        /\ \A i, j \in DOMAIN sh : i # j => sh[i] # sh[j]
        /\ \A i \in DOMAIN sh : Alive(r, sh[i])
        /\ \A i \in DOMAIN Doc(r).arrs :
              LET a == Arr(Doc(r).arrs[i].k) IN
              \A lf \in Leaves(r, a) : \A e \in Range(OrderOf(lf)) : Alive(r, e) => In(sh, e)

\* C15: nothing staged means no staged objects either
\* (remove_object drops an object's staged revisions but not its staged body: excluded when the object-level API is modelled)
I_C15_StageConsistent == "objapi" \notin Feat => \A r \in Replica : up[r] /\ ~HasStaging(r) => sobjs[r] = {}

-----------------------------------------------------------------------------
(* Action properties: about the step whose label is act' *)
\* next-state memory, built from primed variables only (priming whole operators is very slow in TLC)
MemN(r) == [blocks |-> {b \in known'[r] : b.name \in applied'[r]}, st |-> staged'[r]]
DocN(r) == DocM(MemN(r))
ViewN(r) == ViewM(MemN(r))
HeadsN(r) == Core!HeadsOf(MemN(r).blocks)
HasStagingN(r) == \E o \in Obj : staged'[r][o] # {}
TreeN(r, o) == TreeM(MemN(r), o)
AliveN(r, o) == AliveM(MemN(r), o)
WN(r, o) == WM(MemN(r), o)
Did(n, r) == act'.n = n /\ act'.r = r
ArrConflict(r) == \E a \in ArrObjs : Tree(r, a) # {} /\ Core!InConflict(Tree(r, a))

A_C04_ReadAfterEdit ==
    \A r \in Replica : \A d \in Docs : Did("Edit", r) /\ act'.d = d =>
        IF ~ArrConflict(r) THEN DocN(r) = DocOf(d)
        ELSE /\ DocN(r).ok /\ DocN(r).rv = d.rv
             /\ LET sh == ShownElems(DocN(r)) IN
                /\ \A i, j \in DOMAIN sh : i # j => sh[i] # sh[j]
                /\ Range(sh) = UNION {Range(d.ord[k]) : k \in d.ks}
A_C04_Idempotent ==     \* submitting the same document twice in a row changes nothing
    \A r \in Replica : \A d \in Docs :
        Did("Edit", r) /\ act'.d = d /\ act.n = "Edit" /\ act.r = r /\ act.d = d => staged' = staged /\ sobjs' = sobjs

A_C12_NoDocChange ==
    \A r \in Replica :
        /\ (Did("Commit", r) /\ act'.mode # "crash" => DocN(r) = Doc(r))
        /\ (Did("EmptyCommit", r) \/ Did("Snapshot", r) \/ Did("Meld", r) \/ Did("Copy", r) => DocN(r) = Doc(r))
        /\ ((Did("Refresh", r) \/ Did("Reload", r)) /\ NoDamage /\ applied[r] = CCNames(store[r]) => DocN(r) = Doc(r))

A_C07_Resolve ==
    \A r \in Replica : \A o \in Obj : \A lf \in Leaves(r, o) :
        Did("Resolve", r) /\ act'.o = o /\ act'.leaf = lf =>
            /\ ~Core!InConflict(TreeN(r, o))
            /\ (o \notin ArrObjs =>
                  IF RIsDel(lf) THEN ~AliveN(r, o)
                  ELSE AliveN(r, o) /\ Last(WN(r, o)) = Last(lf))
            /\ (lf = W(r, o) => DocN(r) = Doc(r))

A_C13_Commit ==
    \A r \in Replica : Did("Commit", r) /\ act'.mode = "ok" =>
        /\ act'.block.parents = Heads(r)
        /\ HeadsN(r) = {act'.block.name}
        /\ \A p \in MemBlocks(r) : p.name \in act'.block.parents => p.idx < act'.block.idx
        /\ ~HasStagingN(r)                                        \* C15: a successful commit leaves nothing staged

A_C09_WriteOrder ==     \* a block never reaches storage before the pack it names
    \A r \in Replica : Did("Commit", r) =>
        \A i \in DOMAIN act'.wrote :
            act'.wrote[i].kind = "delta" =>
                \A k \in act'.wrote[i].packs :
                    (\E p \in PacksOf(store[r]) : p.name = k) \/ (\E j \in 1..(i - 1) : act'.wrote[j].kind = "pack" /\ act'.wrote[j].name = k)
A_C09_FailedCommit ==
    \A r \in Replica : Did("Commit", r) /\ act'.mode = "fail" =>
        /\ HasStagingN(r)
        /\ DocN(r) = Doc(r)
        /\ HeadsN(r) = Heads(r)

A_C14_Travel ==
    \A r \in Replica : Did("ReloadUntil", r) =>
        /\ HeadsN(r) = act'.H
        /\ \A p \in seen : p[1] = act'.H => ViewN(r) = p[2]

A_C15_Unstage ==
    \A r \in Replica : Did("Unstage", r) =>
        /\ ~HasStagingN(r) /\ sobjs'[r] = {}
        /\ ViewN(r) = ViewM(FreshMem(MemBlocks(r)))
A_C15_Guards == \A r \in Replica : (Did("Refresh", r) \/ Did("Reload", r) \/ Did("ReloadUntil", r)) => ~HasStaging(r)

A_C02_RefreshApplies ==
    \A r \in Replica : (Did("Refresh", r) \/ Did("Reload", r) \/ Did("Reopen", r)) /\ NoDamage => applied'[r] = CCNames(store[r])

\* C10: after damage, opening / reloading shows exactly the intact, causally complete subset;
\* an incremental refresh does too unless the damaged item had already been loaded (finding P10)
A_C10_ErrorOrIntact ==
    \A r \in Replica :
        /\ (Did("Reopen", r) \/ Did("Reload", r)) => applied'[r] = CCNames(store[r])
        /\ Did("Refresh", r) /\ (\A b \in known[r] : b \in store[r]) /\ (\A p \in apacks[r] : p \in store[r])
              => applied'[r] = CCNames(store[r])

A_C11_AppendOnly == act'.n # "Damage" => \A r \in Replica : store[r] \subseteq store'[r]

P_C04_ReadAfterEdit == [][A_C04_ReadAfterEdit]_vars
P_C04_Idempotent == [][A_C04_Idempotent]_vars
P_C12_NoDocChange == [][A_C12_NoDocChange]_vars
P_C07_Resolve == [][A_C07_Resolve]_vars
P_C13_Commit == [][A_C13_Commit]_vars
P_C09_WriteOrder == [][A_C09_WriteOrder]_vars
P_C09_FailedCommit == [][A_C09_FailedCommit]_vars
P_C14_Travel == [][A_C14_Travel]_vars
P_C15_Unstage == [][A_C15_Unstage]_vars
P_C15_Guards == [][A_C15_Guards]_vars
P_C02_RefreshApplies == [][A_C02_RefreshApplies]_vars
P_C10_ErrorOrIntact == [][A_C10_ErrorOrIntact]_vars
P_C11_AppendOnly == [][A_C11_AppendOnly]_vars

-----------------------------------------------------------------------------
(* Schedule emission: one line per distinct state (sched is hidden by the VIEW, so TLC keeps the
   first path to each state) *)
EmitSched == (EmitK = 1 \/ RandomElement(1..EmitK) = 1) => PrintT(<<"SCHED", ToJson(sched)>>)

\* non-vacuity counters (printed at the end by the POSTCONDITION)
Interesting ==
    /\ (\E r \in Replica : \E o \in Obj : Cardinality(Leaves(r, o)) > 1) => TLCSet(1, TLCGet(1) + 1)
    /\ (\E r \in Replica : up[r] /\ \E b \in GoodBlocks(store[r]) : b.name \notin CCNames(store[r])) => TLCSet(2, TLCGet(2) + 1)
    /\ (\E r \in Replica : Cardinality(Heads(r)) > 1) => TLCSet(3, TLCGet(3) + 1)
    /\ (\E r \in Replica : ~up[r]) => TLCSet(4, TLCGet(4) + 1)
    /\ (\E r \in Replica : \E a \in ArrObjs : Cardinality(Leaves(r, a)) > 1) => TLCSet(5, TLCGet(5) + 1)
    /\ (\E r \in Replica : up[r] /\ Doc(r).ok /\ \E i \in DOMAIN Doc(r).arrs : Len(Doc(r).arrs[i].seq) > 1) => TLCSet(6, TLCGet(6) + 1)
CountInit == \A i \in 1..6 : TLCSet(i, 0)
PostStats == PrintT(<<"NONTRIVIAL", [i \in 1..6 |-> TLCGet(i)]>>)
=============================================================================
