--------------------------- MODULE MeldaTrace ---------------------------
(***************************************************************************)
(* Trace validation: reads the events recorded from libmelda by the        *)
(* harness (one per API call, with the projected Observation of the acting *)
(* replica) and evaluates the Level-A predicates of the properties at      *)
(* every step (module MeldaProps style: antecedent / consequent pairs).    *)
(*                                                                         *)
(*   env TRACE, ITEMS, REVS : files written by `mvh hist`                  *)
(*                                                                         *)
(* Two configurations:                                                     *)
(*   MeldaTrace.cfg       one invariant `AllChecks` that evaluates every   *)
(*                        predicate, counts the steps at which each        *)
(*                        antecedent held (non-vacuity) and prints one     *)
(*                        line per violated predicate; many runs per file. *)
(*   MeldaTraceStrict.cfg every predicate as a named TLC invariant: used   *)
(*                        for replays, TLC's counterexample is the prefix. *)
(***************************************************************************)
EXTENDS Json, IOUtils, TLC, Sequences, Naturals, FiniteSets, SequencesExt, FiniteSetsExt

Rec    == ndJsonDeserialize(IOEnv.TRACE)
ItemT  == ndJsonDeserialize(IOEnv.ITEMS)
RevT   == ndJsonDeserialize(IOEnv.REVS)

Rng(s) == {s[i] : i \in DOMAIN s}

ItemIx == [t \in {ItemT[i].tok : i \in DOMAIN ItemT} |-> CHOOSE i \in DOMAIN ItemT : ItemT[i].tok = t]
RawItem(t) == ItemT[ItemIx[t]]

NoRev == ""

\* the C05 order on the recorded identifiers (RevRec, TIdx, TIsRes, TIsDel, TSpecial, TDig, TRevLess)
RevIx == [t \in {RevT[i].rev : i \in DOMAIN RevT} |-> CHOOSE i \in DOMAIN RevT : RevT[i].rev = t]
INSTANCE RevOrder

Core == INSTANCE MeldaCore WITH RevLess <- TRevLess, Idx <- TIdx, IsRes <- TIsRes,
                                SpecialRev <- TSpecial, DigOf <- TDig, NoRev <- NoRev

\* item record in the shape MeldaCore expects
Item(t) == LET x == RawItem(t) IN
    [tok |-> t, name |-> x.name, kind |-> x.kind, ok |-> x.hashok /\ x.wf, idx |-> x.idx,
     parents |-> Rng(x.parents), packs |-> Rng(x.packs),
     changes |-> {[o |-> c.o, rev |-> c.rev, prev |-> c.prev] : c \in Rng(x.changes)},
     objs |-> Rng(x.objs), sha |-> x.sha, key |-> x.key, info |-> x.info]

-----------------------------------------------------------------------------
(* Observations *)

HasObs(o) == "items" \in DOMAIN o
Items(o)  == {Item(t) : t \in Rng(o.items)}
Tree(o, x) == {[rev |-> e.rev, par |-> e.par, st |-> e.st] : e \in Rng(o.trees[x])}
Objects(o) == Rng(o.objects)
AppliedNames(o) == {k \in DOMAIN o.status : o.status[k] = "applied"}
IsArr(x) == Len(x) >= 3 /\ SubSeq(x, 1, 3) = "%5E"
View(o) == [objects |-> Objects(o),
            winner |-> [x \in Objects(o) |-> o.winner[x]],
            confl |-> [x \in Objects(o) |-> Rng(o.confl[x])],
            inconf |-> Rng(o.inconf),
            doc |-> o.doc.sha, docok |-> o.doc.ok]
Alive(o, x) == x \in Objects(o) /\ o.winner[x] # NoRev /\ ~TIsDel(o.winner[x])
OKey(a, r) == a \o "|" \o r

\* Facts derived by the specification from an Observation (computed once per step)
Derive(o) ==
    IF ~HasObs(o) THEN [has |-> FALSE]
    ELSE LET I == Items(o)
             cc == Core!CC(I)
             an == AppliedNames(o)
             ab == {b \in Core!Blocks(I) : b.name \in an}
             chg == UNION {b.changes : b \in ab}
             objs == Objects(o)
             tr == [x \in objs |-> Tree(o, x)]
         IN [has |-> TRUE, items |-> I, cc |-> cc, ccn |-> Core!Names(cc),
             applied |-> an, ablocks |-> ab,
             valid |-> {i.tok : i \in {j \in I : j.ok /\ j.kind \in {"delta", "pack"}}},
             view |-> View(o),
             tree |-> tr,
             leaves |-> [x \in objs |-> Core!LiveLeaves(tr[x])],
             bobjs |-> {c.o : c \in chg},                                    \* objects named by applied blocks
             ctree |-> [x \in {c.o : c \in chg} |-> {[rev |-> c.rev, par |-> c.prev] : c \in {y \in chg : y.o = x}}]]
\* winner rule on the derived leaves
WinnerOfLeaves(L) == IF L = {} THEN NoRev ELSE Core!MaxRev(L)

-----------------------------------------------------------------------------
VARIABLES l,      \* index of the last consumed event
          ob,     \* replica -> last Observation
          pre,    \* Observation of the acting replica before the event
          der,    \* replica -> Derive(ob[replica])
          dpre,   \* Derive(pre)
          h,      \* history needed by the properties (including the current event)
          hp      \* history before the current event
vars == <<l, ob, pre, der, dpre, h, hp>>

IsReset(e) == e.op = "reset"

H0 == [seen |-> {}, viewAt |-> {}, clean |-> <<>>, exported |-> <<>>, keysha |-> <<>>,
       vals |-> <<>>, damaged |-> {}, failed |-> {}, resolved |-> FALSE, preobs |-> [none |-> TRUE]]

Quiescent(o, d) == d.has /\ ~o.staging /\ d.applied = d.ccn

\* f extended with the pairs of g whose key f does not have yet
Extend(f, g) == [k \in DOMAIN g \ DOMAIN f |-> g[k]] @@ f

\* history after observing `o` (derived `d`) of replica r at event e
Observe(hh, e, r, o, d) ==
    IF ~d.has THEN hh
    ELSE [hh EXCEPT
        !.seen = IF Quiescent(o, d) /\ r \notin hh.damaged THEN @ \cup {<<d.valid, d.view>>} ELSE @,
        !.viewAt = IF ~o.staging /\ r \notin hh.damaged THEN @ \cup {<<Rng(o.heads), d.view>>} ELSE @,
        !.clean = IF ~o.staging THEN (r :> o) @@ @ ELSE @,
        !.exported = IF e.op = "Export" THEN (r :> hh.preobs) @@ @
                     ELSE IF e.op \in {"Unstage", "Replay"} THEN @
                     ELSE [x \in DOMAIN @ \ {r} |-> @[x]],
        !.failed = IF e.op # "Commit" THEN @
                   ELSE IF \E j \in DOMAIN e.x.writes : e.x.writes[j].out = "failed" THEN @ \cup {r}
                   ELSE IF e.x.committed THEN @ \ {r} ELSE @,
        !.keysha = IF r \in hh.damaged THEN @ ELSE Extend(@, [k \in {i.key : i \in d.items} |-> (CHOOSE i \in d.items : i.key = k).sha]),
        !.vals = IF o.full /\ r \notin hh.damaged THEN Extend(@, [k \in DOMAIN o.vals |-> <<o.vals[k].v, o.vals[k].p>>]) ELSE @]

Init ==
    /\ l = 1
    /\ IsReset(Rec[1])
    /\ ob = Rec[1].all
    /\ pre = [none |-> TRUE]
    /\ der = [r \in DOMAIN Rec[1].all |-> Derive(Rec[1].all[r])]
    /\ dpre = [has |-> FALSE]
    /\ h = H0
    /\ hp = H0
    /\ \A i \in 1..60 : TLCSet(i, 0)

RECURSIVE ObserveAll(_, _, _, _)
ObserveAll(hh, e, rs, dd) ==
    IF rs = {} THEN hh
    ELSE LET r == CHOOSE x \in rs : TRUE IN
         ObserveAll(Observe([hh EXCEPT !.preobs = e.all[r]], e, r, e.all[r], dd[r]), e, rs \ {r}, dd)

HX == H0

Next ==
    /\ l < Len(Rec)
    /\ l' = l + 1
    /\ LET e == Rec[l + 1] IN
       IF IsReset(e)
       THEN LET dd == [r \in DOMAIN e.all |-> Derive(e.all[r])] IN
            /\ ob' = e.all
            /\ pre' = [none |-> TRUE]
            /\ der' = dd
            /\ dpre' = [has |-> FALSE]
            /\ h' = ObserveAll(HX, e, DOMAIN e.all, dd)
            /\ hp' = HX
       ELSE LET r == e.r
                d == Derive(e.obs)
                hd == [h EXCEPT !.damaged = IF e.op = "Damage" THEN @ \cup {r} ELSE @, !.preobs = ob[r],
                                !.resolved = @ \/ (e.op = "Resolve" /\ e.res.kind = "ok")]
            IN
            /\ ob' = [ob EXCEPT ![r] = e.obs]
            /\ pre' = ob[r]
            /\ der' = [der EXCEPT ![r] = d]
            /\ dpre' = der[r]
            /\ h' = Observe(hd, e, r, e.obs, d)
            /\ hp' = h

Spec == Init /\ [][Next]_vars

-----------------------------------------------------------------------------
(* Helpers for the predicates: all are evaluated in the state reached      *)
(* after consuming event l, about the acting replica.                      *)

E == Rec[l]
Acting == ~IsReset(E)
R == E.r
Post == ob[R]
DPost == der[R]
OkRes == E.res.kind = "ok"
Damaged == R \in h.damaged
Op(n) == Acting /\ E.op = n
Has2 == HasObs(Post) /\ HasObs(pre)
NewItems == DPost.items \ dpre.items
FreshOK(f) == f.open = "ok" /\ HasObs(f)
IsErrStr(s) == Len(s) >= 4 /\ SubSeq(s, 1, 4) = "ERR:"

-----------------------------------------------------------------------------
(* C08 — every operation returns *)
\* (states with driver-damaged storage are not reachable through the public API: they are C10's business)
C08_Returns_A == Acting /\ ~Damaged
C08_Returns_C ==
    /\ E.res.kind \in {"ok", "err"}
    /\ HasObs(E.obs) \/ "closed" \in DOMAIN E.obs
    /\ (HasObs(E.obs) => E.obs.rd0 # "panic")       \* reading the default root returns (value or error) whichever root is in use
    /\ ("fresh" \in DOMAIN E.x => E.x.fresh.open # "panic")
    /\ ("crash" \in DOMAIN E.x => \A s \in Rng(E.x.crash) : s.fresh.open # "panic")

(* C05 — the winner rule, on every tree of an observation *)
WinnerRuleOnD(o, d) ==
    \A x \in Objects(o) :
        LET L == d.leaves[x]  w == WinnerOfLeaves(L) IN
        /\ o.winner[x] = w
        /\ Rng(o.confl[x]) = L \ {w}
        /\ (x \in Rng(o.inconf)) = (Cardinality(L) > 1)
WinnerRuleOn(o) == WinnerRuleOnD(o, Derive(o))
C05_WinnerRule_A == IF Acting THEN HasObs(Post) ELSE TRUE
C05_WinnerRule_C ==
    IF Acting THEN WinnerRuleOnD(Post, DPost)
    ELSE \A r \in DOMAIN ob : HasObs(ob[r]) => WinnerRuleOnD(ob[r], der[r])

\* trees are exactly the change records of the applied blocks (plus staged revisions)
TreeFromBlocksOn(o, d) ==
    /\ \A x \in Objects(o) : Core!Committed(d.tree[x]) = (IF x \in d.bobjs THEN d.ctree[x] ELSE {})
    /\ \A x \in d.bobjs : x \in Objects(o)
    /\ \A x \in Objects(o) : x \in d.bobjs \/ \E e \in d.tree[x] : e.st
C05_TreeFromBlocks_A == Acting /\ HasObs(Post) /\ ~Damaged
C05_TreeFromBlocks_C == TreeFromBlocksOn(Post, DPost)

(* C02 — causal completeness *)
C02_AppliedComplete_A == Acting /\ HasObs(Post) /\ ~Damaged
C02_AppliedComplete_C == DPost.applied \subseteq DPost.ccn
C02_RefreshApplies_A == Acting /\ OkRes /\ HasObs(Post) /\ ~Damaged /\ E.op \in {"Refresh", "Reload", "Open", "ReloadUntil"}
C02_RefreshApplies_C ==
    IF E.op = "ReloadUntil" THEN DPost.applied = Core!Anc(DPost.cc, Rng(E.a.heads))
    ELSE DPost.applied = DPost.ccn
C02_RefreshEqualsReload_A == Op("Refresh") /\ OkRes /\ HasObs(Post) /\ ~Damaged
C02_RefreshEqualsReload_C ==
    /\ FreshOK(E.x.fresh)
    /\ View(E.x.fresh) = View(Post)
    /\ AppliedNames(E.x.fresh) = DPost.applied
\* a held-back block becomes applied once its dependencies have arrived (counted for non-vacuity)
C02_HeldBackThenApplied_A == C02_RefreshApplies_A /\ dpre.has /\ \E k \in DOMAIN pre.status : pre.status[k] = "blocked" /\ k \in DPost.ccn
C02_HeldBackThenApplied_C == \A k \in DOMAIN pre.status : k \in DPost.ccn /\ E.op # "ReloadUntil" => k \in DPost.applied

(* C13 — commit graph *)
C13_Graph_A == Acting /\ HasObs(Post) /\ ~Damaged
C13_Graph_C ==
    /\ Core!AncestorClosed(DPost.ablocks)
    /\ Core!IndexRule(DPost.ablocks)
    /\ Rng(Post.heads) = Core!HeadsOf(DPost.ablocks)
C13_Commit_A == Op("Commit") /\ OkRes /\ E.x.committed /\ HasObs(Post) /\ dpre.has
C13_Commit_C ==
    LET nb == Core!Blocks(NewItems) np == Core!Packs(NewItems) IN
    /\ Cardinality(nb) = 1                                   \* exactly one new block (how many packs is not the property's business)
    /\ NewItems = nb \cup np
    /\ \A b \in nb :
          /\ b.ok
          /\ b.parents = Rng(pre.heads)
          \* the block names exactly the pack(s) this commit wrote (a pack with the same bytes may already exist: write-once)
          /\ b.packs = {Item(E.x.writes[j].tok).name : j \in {k \in DOMAIN E.x.writes : Item(E.x.writes[k].tok).kind = "pack" /\ E.x.writes[k].out # "failed"}}
          /\ Core!Names(np) \subseteq b.packs
          /\ b.idx = 1 + Core!MaxIdx({p \in dpre.items : p.kind = "delta" /\ p.name \in b.parents})
          /\ Rng(Post.heads) = {b.name}
          /\ Rng(E.res.val) = {b.name}
C13_ReadBack_A == Acting /\ HasObs(Post) /\ ~Damaged
C13_ReadBack_C ==
    \A k \in DOMAIN Post.deltas :
        \A b \in Core!Blocks(DPost.items) : b.name = k /\ b.ok =>
            /\ Rng(Post.deltas[k].parents) = b.parents
            /\ Rng(Post.deltas[k].packs) = b.packs
            /\ Post.deltas[k].info = b.info

(* C11 — content addressing, append-only, same bytes everywhere *)
C11_Names_A == Acting /\ E.op \in {"Commit", "Meld"} /\ HasObs(Post) /\ dpre.has /\ ~Damaged
C11_Names_C ==
    \A i \in NewItems : i.kind \in {"delta", "pack"} =>
        /\ i.ok                                                \* named by the SHA-256 of its bytes, well formed
        /\ (i.kind = "delta" /\ (\A p \in i.parents : \E q \in DPost.items : q.kind = "delta" /\ q.name = p) =>
              i.idx = 1 + Core!MaxIdx({q \in DPost.items : q.kind = "delta" /\ q.name \in i.parents}))   \* index = highest parent + 1
C11_AppendOnly_A == Acting /\ E.op # "Damage" /\ Has2
C11_AppendOnly_C == Rng(pre.items) \subseteq Rng(Post.items)
C11_SameBytes_A == Acting /\ HasObs(Post) /\ ~Damaged
C11_SameBytes_C == \A i \in DPost.items : i.key \in DOMAIN hp.keysha => hp.keysha[i.key] = i.sha

(* C01 — same valid items, same view *)
C01_SameItemsSameView_A == Acting /\ HasObs(Post) /\ ~Damaged /\ Quiescent(Post, DPost)
C01_SameItemsSameView_C == \A p \in hp.seen : p[1] = DPost.valid => p[2] = DPost.view
C01_SyncReaches_A == Op("Synced") /\ HasObs(Post) /\ ~Damaged /\ HasObs(ob[E.x.peer]) /\ E.x.peer \notin h.damaged
                       /\ ~Post.staging /\ ~ob[E.x.peer].staging   \* refresh refuses to run on staged changes (C15)
C01_SyncReaches_C ==
    /\ E.x.converged                      \* the exchange loop reached a round in which nobody learned anything
    /\ der[E.x.peer].valid = DPost.valid
    /\ der[E.x.peer].view = DPost.view
    /\ DPost.applied = DPost.ccn /\ der[E.x.peer].applied = der[E.x.peer].ccn

(* C03 — durability of a successful commit *)
C03_Durable_A == Op("Commit") /\ OkRes /\ E.x.committed /\ HasObs(Post) /\ ~Damaged
C03_Durable_C ==
    LET f == E.x.fresh IN
    /\ FreshOK(f)
    /\ Rng(E.res.val) \subseteq AppliedNames(f)
    /\ (DPost.applied = DPost.ccn =>
           /\ View(f) = View(Post)
           /\ Rng(f.heads) = Rng(Post.heads)
           /\ AppliedNames(f) = DPost.applied
           /\ \A k \in DPost.applied : f.deltas[k] = Post.deltas[k]   \* the commit graph (held-back blocks may be known to one side only)
           /\ f.doc = Post.doc)

(* C04 — reading returns the document last submitted *)
ArrayConflict(o) == \E x \in Rng(o.inconf) : IsArr(x)
NoDupArrays(doc) ==
    \A a1, a2 \in DOMAIN doc.arrays : \A i \in DOMAIN doc.arrays[a1] : \A j \in DOMAIN doc.arrays[a2] :
        (a1 # a2 \/ i # j) => doc.arrays[a1][i] # doc.arrays[a2][j]
C04_Exact_A == Op("Update") /\ OkRes /\ Has2 /\ ~ArrayConflict(pre)
C04_Exact_C == Post.doc.ok /\ Post.doc.sha = E.x.sub.sha
C04_WeakUnderArrayConflict_A == Op("Update") /\ OkRes /\ Has2 /\ ArrayConflict(pre)
C04_WeakUnderArrayConflict_C ==
    /\ Post.doc.ok
    /\ Post.doc.objs = E.x.sub.objs
    /\ NoDupArrays(Post.doc)
C04_Idempotent_A == Op("Update") /\ OkRes /\ Has2 /\ "again" \in DOMAIN E.x
C04_Idempotent_C ==
    /\ Post.trees = pre.trees
    /\ Post.stage = pre.stage
    /\ View(Post) = View(pre)
C04_EmptyCommit_A == Op("Commit") /\ Has2 /\ ~pre.staging
C04_EmptyCommit_C ==
    /\ OkRes /\ ~E.x.committed
    /\ Post.items = pre.items
    /\ E.x.writes = <<>>

(* C06 — arrays merge without loss or duplication (system level) *)
ShownIn(doc) == UNION {Rng(doc.arrays[a]) : a \in DOMAIN doc.arrays}
Sub(s, S) == SelectSeq(s, LAMBDA x : x \in S)
LeafOrders(o, d, a) == {o.orders[OKey(a, lf)].seq : lf \in d.leaves[a]}
AgreeOnCommon(s, t) == Sub(s, Rng(t)) = Sub(t, Rng(s))
C06_ArrayView_A == Acting /\ HasObs(Post) /\ Post.full /\ Post.doc.ok /\ ~Damaged
C06_ArrayView_C ==
    LET doc == Post.doc IN
    /\ NoDupArrays(doc)                                                        \* (i) no duplication
    /\ \A x \in ShownIn(doc) : x \in Objects(Post) => Alive(Post, x)           \* (ii) no ghosts
    /\ \A a \in DOMAIN doc.arrays : a \in Objects(Post) =>
         /\ OKey(a, Post.winner[a]) \in DOMAIN Post.orders        \* a shown array has a winner whose stored order is known
         /\ LET lo == LeafOrders(Post, DPost, a)
                w == Post.orders[OKey(a, Post.winner[a])].seq
                ll == DPost.leaves[a]
            IN
            /\ \A s \in lo : \A x \in Rng(s) : Alive(Post, x) => x \in DOMAIN doc.objs   \* (iii) no loss: shown in some array or directly under a flattened key
            /\ \A x \in Rng(doc.arrays[a]) : \E s \in lo : x \in Rng(s)                 \* (iv) no invention
            /\ Sub(doc.arrays[a], Rng(w)) = Sub(w, Rng(doc.arrays[a]))        \* (v) winner's order kept
            /\ (Cardinality(ll) = 2 =>
                  \A s \in lo : AgreeOnCommon(s, w) =>
                      Sub(doc.arrays[a], Rng(s)) = Sub(s, Rng(doc.arrays[a])))

(* C16 — stored array versions reconstruct to what was submitted *)
C16_Reconstructs_A == Acting /\ HasObs(Post) /\ Post.full /\ ~Damaged
C16_Reconstructs_C == \A k \in DOMAIN Post.orders : Post.orders[k].ok
C16_StoredEqualsSubmitted_A == Op("Update") /\ OkRes /\ HasObs(Post) /\ Post.full
C16_StoredEqualsSubmitted_C ==
    \A a \in DOMAIN E.x.sub.arrays :
        /\ a \in Objects(Post)
        /\ Post.winner[a] # NoRev
        /\ OKey(a, Post.winner[a]) \in DOMAIN Post.orders
        /\ Post.orders[OKey(a, Post.winner[a])].seq = E.x.sub.arrays[a]

(* C07 — resolving adopts the chosen revision *)
C07_Resolve_A == Op("Resolve") /\ OkRes /\ Has2 /\ E.a.o \in Rng(pre.inconf)
                 /\ E.a.leaf \in dpre.leaves[E.a.o]
C07_Resolve_C ==
    LET x == E.a.o  lf == E.a.leaf IN
    /\ x \notin Rng(Post.inconf)                                               \* no longer in conflict
    /\ IF ~IsArr(x)
       THEN IF TIsDel(lf)
            THEN /\ ~Alive(Post, x)
                 /\ (Post.doc.ok => x \notin DOMAIN Post.doc.objs)
            ELSE /\ Alive(Post, x)
                 /\ (Post.full /\ pre.full =>
                        Post.vals[OKey(x, Post.winner[x])].v = pre.vals[OKey(x, lf)].v)
       ELSE (Post.doc.ok /\ pre.doc.ok /\ x \in DOMAIN Post.doc.arrays /\ x \in DOMAIN pre.doc.arrays /\ pre.full) =>
                \* the same objects are visible as before (an element referenced by several arrays may be shown
                \* by another one of them once the adopted order changes the traversal)
                /\ DOMAIN Post.doc.objs = DOMAIN pre.doc.objs
                /\ LET s == pre.orders[OKey(x, lf)].seq IN
                   Sub(Post.doc.arrays[x], Rng(s)) = Sub(s, Rng(Post.doc.arrays[x]))
    /\ (lf = pre.winner[x] => Post.doc = pre.doc)                              \* choosing the winner changes nothing

(* C09 — atomicity under crashes and write failures *)
WItem(w) == Item(w.tok)
C09_CommitWriteOrder_A == Op("Commit") /\ dpre.has /\ E.x.writes # <<>>
C09_CommitWriteOrder_C ==
    \A j \in DOMAIN E.x.writes :
        LET b == WItem(E.x.writes[j]) IN
        b.kind = "delta" =>
            \A k \in b.packs :
                \/ \E p \in dpre.items : p.kind = "pack" /\ p.name = k
                \/ \E j2 \in 1..(j - 1) : E.x.writes[j2].out # "failed" /\ WItem(E.x.writes[j2]).kind = "pack"
                                          /\ WItem(E.x.writes[j2]).name = k
C09_CrashAtomic_A == Acting /\ "crash" \in DOMAIN E.x
C09_CrashAtomic_C ==
    LET cs == E.x.crash  n == Len(cs) IN
    \A i \in 1..n :
        LET f == cs[i].fresh IN
        /\ FreshOK(f)
        /\ LET d == Derive(f) IN
           /\ d.applied = d.ccn
           /\ TreeFromBlocksOn(f, d)
           /\ WinnerRuleOnD(f, d)
        \* for the commit itself: the previous state or the new state, never a mixture -- unless the pack written
        \* by this commit happens to complete a block of someone else that was held back (then that block, whole,
        \* becomes visible too: still no mixture, and covered by the clauses above)
        /\ (E.op = "Commit" /\ FreshOK(cs[1].fresh) /\ FreshOK(cs[n].fresh)
               /\ Derive(f).ccn \subseteq (Derive(cs[1].fresh).ccn \cup (IF OkRes /\ E.x.committed THEN Rng(E.res.val) ELSE {})) =>
               View(f) \in {View(cs[1].fresh), View(cs[n].fresh)})
C09_FailedCommit_A == Op("Commit") /\ Has2 /\ \E j \in DOMAIN E.x.writes : E.x.writes[j].out = "failed"
C09_FailedCommit_C ==
    /\ E.res.kind = "err"
    /\ Post.staging
    /\ Post.doc = pre.doc
    /\ Post.heads = pre.heads

\* after a failed commit, the retry is as durable as an uninterrupted commit
C09_RetryDurable_A == Op("Commit") /\ OkRes /\ E.x.committed /\ HasObs(Post) /\ ~Damaged /\ R \in hp.failed
C09_RetryDurable_C == C03_Durable_C

(* C10 — stored items are trusted only if content matches name *)
C10_ErrorOrIntact_A == Acting /\ Damaged /\ E.op \in {"Open", "OpenFailed", "Refresh", "Reload"}
C10_ErrorOrIntact_C ==
    \/ E.res.kind = "err"
    \/ /\ OkRes /\ HasObs(Post)
       /\ DPost.applied = DPost.ccn
       /\ TreeFromBlocksOn(Post, DPost)
       /\ WinnerRuleOnD(Post, DPost)
C10_NoAlteredContent_A == Acting /\ HasObs(Post) /\ Post.full
C10_NoAlteredContent_C ==
    \A k \in DOMAIN Post.vals : k \in DOMAIN hp.vals =>
        IsErrStr(Post.vals[k].v) \/ Post.vals[k].v = hp.vals[k][1]

(* C12 — maintenance operations do not change the document *)
C12_NoDocChange_A ==
    Acting /\ Has2 /\ ~Damaged /\
       \/ E.op \in {"Commit", "Snapshot", "Meld", "Export"}
       \/ E.op \in {"Refresh", "Reload"} /\ dpre.applied = DPost.ccn /\ ~pre.staging
C12_NoDocChange_C == Post.doc = pre.doc

(* C14 — time travel *)
C14_Travel_A == Op("ReloadUntil") /\ OkRes /\ HasObs(Post) /\ ~Damaged
C14_Travel_C ==
    /\ Rng(Post.heads) = Rng(E.a.heads)
    /\ \A p \in hp.viewAt : p[1] = Rng(E.a.heads) => p[2] = DPost.view
C14_Retrievable_A == Acting /\ HasObs(Post) /\ Post.full /\ ~Damaged
C14_Retrievable_C ==
    \A k \in DOMAIN Post.vals :
        /\ ~IsErrStr(Post.vals[k].v) /\ ~IsErrStr(Post.vals[k].p)
        /\ (k \in DOMAIN hp.vals => hp.vals[k] = <<Post.vals[k].v, Post.vals[k].p>>)

(* C15 — staging *)
C15_CommitCleans_A == Op("Commit") /\ OkRes /\ E.x.committed /\ HasObs(Post)
C15_CommitCleans_C == ~Post.staging /\ Post.stage = ""
C15_Guards_A == Acting /\ E.op \in {"Refresh", "Reload", "ReloadUntil"} /\ Has2 /\ pre.staging
C15_Guards_C == E.res.kind = "err" /\ Post = pre
C15_Unstage_A == Op("Unstage") /\ OkRes /\ HasObs(Post) /\ R \in DOMAIN hp.clean
C15_Unstage_C ==
    LET c == hp.clean[R] IN
    /\ ~Post.staging /\ Post.stage = ""
    /\ Post.trees = c.trees
    /\ View(Post) = View(c)
    /\ Post.heads = c.heads
\* the staged set is self-contained: the object of every staged revision is in the stage export or in a
\* valid stored pack (never only in a cache) -- otherwise export/replay, commit and retry would lose it
C15_StageComplete_A == Acting /\ HasObs(Post) /\ ~Damaged
C15_StageComplete_C ==
    LET av == Core!Avail(DPost.items) \cup Rng(Post.stageobjs) IN
    \A x \in Objects(Post) : \A e \in DPost.tree[x] : e.st => (TSpecial(e.rev) \/ TDig(e.rev) \in av)
C15_ExportReplay_A == Op("Replay") /\ OkRes /\ HasObs(Post) /\ R \in DOMAIN hp.exported /\ HasObs(hp.exported[R])
C15_ExportReplay_C ==
    LET x == hp.exported[R] IN
    /\ Post.trees = x.trees
    /\ Post.staging = x.staging
    /\ Post.stage = x.stage
    /\ View(Post) = View(x)

(* Level-I frame conditions (drift, not a property): which part of the state an operation may touch *)
D_FrameStorage_A == Acting /\ Has2 /\ E.op \in {"Update", "Resolve", "Unstage", "Export", "Replay", "Snapshot", "Refresh", "Reload", "ReloadUntil"}
D_FrameStorage_C == Post.items = pre.items
D_FrameMemory_A == Acting /\ Has2 /\ E.op \in {"Meld", "Copy", "Foreign"}
D_FrameMemory_C ==
    /\ Post.trees = pre.trees /\ Post.status = pre.status /\ Post.heads = pre.heads
    /\ Post.staging = pre.staging /\ Post.stage = pre.stage /\ View(Post) = View(pre)

(* Level-I step conformance (growth of the specification beyond the listed properties; reported as
   DRIFT, never as a VIOLATION): what each operation does to the abstract state *)
NewEntries(x) == IF x \in Objects(pre) THEN DPost.tree[x] \ dpre.tree[x] ELSE DPost.tree[x]
PreWinner(x) == IF x \in Objects(pre) THEN pre.winner[x] ELSE NoRev
\* update(doc): every new revision is staged and extends the winner its object had before
X_UpdateStep_A == Op("Update") /\ OkRes /\ Has2
X_UpdateStep_C ==
    /\ \A x \in Objects(pre) : x \in Objects(Post) /\ dpre.tree[x] \subseteq DPost.tree[x]
    /\ \A x \in Objects(Post) : \A e \in NewEntries(x) : e.st /\ e.par = PreWinner(x) /\ ~TIsRes(e.rev)
    /\ \A x \in Objects(Post) : Cardinality(NewEntries(x)) <= 1
\* resolve_as: at most one re-assertion on the old winner, plus one marker on every other live leaf
X_ResolveStep_A == C07_Resolve_A
X_ResolveStep_C ==
    LET x == E.a.o
        ne == NewEntries(x)
        re == {e \in ne : ~TIsRes(e.rev)}
        mk == {e \in ne : TIsRes(e.rev)}
    IN /\ x \in Objects(Post)
       /\ \A y \in Objects(Post) \ {x} : y \in Objects(pre) /\ DPost.tree[y] = dpre.tree[y]
       /\ \A e \in ne : e.st
       /\ Cardinality(re) <= 1 /\ \A e \in re : e.par = pre.winner[x]
       /\ {e.par : e \in mk} = Core!LiveLeaves(dpre.tree[x] \cup re) \ {Post.winner[x]}
\* error model of resolve_as: a revision that is not a live leaf, or an object that is not in conflict, is refused
X_ResolveRefused_A == Op("Resolve") /\ Has2 /\ E.a.o \in Objects(pre)
                      /\ (E.a.leaf \notin dpre.leaves[E.a.o] \/ Cardinality(dpre.leaves[E.a.o]) <= 1)
X_ResolveRefused_C == E.res.kind = "err" /\ Post = pre
\* meld(other): afterwards the storage holds every valid block the source has loaded and every valid pack it has indexed
X_MeldStep_A == Op("Meld") /\ OkRes /\ Has2 /\ ~Damaged /\ HasObs(ob[E.a.s]) /\ E.a.s \notin h.damaged
                /\ \A j \in DOMAIN E.x.writes : E.x.writes[j].out # "failed"
X_MeldStep_C ==
    LET src == ob[E.a.s]  sd == der[E.a.s] IN
    /\ \A i \in sd.items : (i.ok /\ i.kind = "delta" /\ i.name \in DOMAIN src.status) => i \in DPost.items
    \* every valid pack named by a block the source has applied (such packs are indexed by the source)
    /\ \A b \in sd.ablocks : \A i \in sd.items : (i.ok /\ i.kind = "pack" /\ i.name \in b.packs) => i \in DPost.items
    /\ \A i \in NewItems : i \in sd.items
    \* items that are neither blocks nor packs are forwarded too (write-once: an existing key keeps its bytes)
    /\ \A i \in sd.items : i.kind = "other" => \E j \in DPost.items : j.key = i.key
\* unstage leaves exactly the committed part of every tree
X_UnstageStep_A == Op("Unstage") /\ OkRes /\ Has2
X_UnstageStep_C ==
    /\ Objects(Post) = {x \in Objects(pre) : Core!Unstaged(dpre.tree[x]) # {}}
    /\ \A x \in Objects(Post) : DPost.tree[x] = Core!Unstaged(dpre.tree[x])
\* commit clears the staged flags and changes nothing else in the trees (besides auto-resolution of arrays)
X_CommitStep_A == Op("Commit") /\ OkRes /\ E.x.committed /\ Has2
X_CommitStep_C ==
    /\ Objects(Post) = Objects(pre)
    /\ \A x \in Objects(pre) : ~IsArr(x) => {[rev |-> e.rev, par |-> e.par] : e \in DPost.tree[x]} = {[rev |-> e.rev, par |-> e.par] : e \in dpre.tree[x]}
    /\ \A x \in Objects(Post) : \A e \in DPost.tree[x] : ~e.st
    /\ \A b \in Core!Blocks(NewItems) : \A c \in b.changes : c.o \in Objects(Post) /\ \E e \in DPost.tree[c.o] : e.rev = c.rev /\ e.par = c.prev

\* the object-level API: create_object / update_object / delete_object / remove_object
ObjOp == Acting /\ E.op \in {"ObjCreate", "ObjUpdate", "ObjDelete", "ObjRemove"} /\ OkRes /\ Has2
X_ObjStep_A == ObjOp
X_ObjStep_C ==
    LET x == E.a.o
        had == x \in Objects(pre)
        ne == IF x \in Objects(Post) THEN NewEntries(x) ELSE {}
    IN /\ \A y \in Objects(Post) \ {x} : y \in Objects(pre) /\ DPost.tree[y] = dpre.tree[y]   \* no other object is touched
       /\ Post.items = pre.items
       /\ CASE E.op = "ObjCreate" ->          \* at most one new creation revision, staged
                 /\ x \in Objects(Post) /\ Cardinality(ne) <= 1
                 /\ \A e \in ne : e.st /\ e.par = NoRev /\ TIdx(e.rev) = 1
            [] E.op = "ObjUpdate" ->          \* at most one new revision: a creation, or a child of the old winner
                 /\ x \in Objects(Post) /\ Cardinality(ne) <= 1
                 /\ \A e \in ne : e.st /\ (IF had THEN e.par = pre.winner[x] ELSE e.par = NoRev)
            [] E.op = "ObjDelete" ->          \* a deletion child of the old winner, unless it already is one / is unknown
                 /\ (had = (x \in Objects(Post)))
                 /\ Cardinality(ne) <= 1
                 /\ \A e \in ne : e.st /\ TIsDel(e.rev) /\ e.par = pre.winner[x]
            [] OTHER ->                       \* remove_object: staged revisions dropped; the object vanishes if nothing was committed
                 /\ (x \in Objects(Post)) = (had /\ Core!Unstaged(dpre.tree[x]) # {})
                 /\ (x \in Objects(Post) => Core!Unstaged(DPost.tree[x]) = Core!Unstaged(dpre.tree[x])
                                             /\ \A e \in DPost.tree[x] : e.st => TIsDel(e.rev))

(* C19 — identifiers are canonical (system level) *)
C19_Canonical_A == Acting /\ HasObs(Post)
C19_Canonical_C ==
    \A x \in Objects(Post) : \A e \in DPost.tree[x] :
        /\ RevRec(e.rev).wf
        /\ IF e.par = NoRev THEN RevRec(e.rev).tail = ""
           ELSE /\ RevRec(e.par).wf
                /\ TIdx(e.rev) = TIdx(e.par) + 1
                /\ RevRec(e.rev).tail = RevRec(e.par).tailof
C19_LeafOrderTotal_A == Acting /\ HasObs(Post)
C19_LeafOrderTotal_C == \A x \in Objects(Post) : Core!StrictTotalOn(DPost.leaves[x])

\* stage_full_snapshot: only array descriptors get a new revision; it is staged and extends the winner its array had
X_SnapshotStep_A == Op("Snapshot") /\ OkRes /\ Has2
X_SnapshotStep_C ==
    /\ Objects(Post) = Objects(pre)
    /\ Post.items = pre.items
    /\ \A x \in Objects(pre) :
          IF IsArr(x)
          THEN /\ dpre.tree[x] \subseteq DPost.tree[x]
               /\ Cardinality(NewEntries(x)) <= 1
               /\ \A e \in NewEntries(x) : e.st /\ e.par = pre.winner[x] /\ ~TIsRes(e.rev)
          ELSE DPost.tree[x] = dpre.tree[x]
\* stage(): exporting the staged changes is an observation only
X_ExportPure_A == Op("Export") /\ OkRes /\ Has2
X_ExportPure_C == Post = pre

\* C02: a held-back block is invisible -- heads and committed trees are those of the applied blocks alone
C02_HeldBackInvisible_A == Acting /\ HasObs(Post) /\ ~Damaged /\ DPost.applied # Core!Names(Core!Blocks(DPost.items))
C02_HeldBackInvisible_C == Rng(Post.heads) = Core!HeadsOf(DPost.ablocks) /\ TreeFromBlocksOn(Post, DPost)
\* C06: an edit made while the array is in conflict is one of the concurrent versions: every element of the
\* submitted document must be shown, each exactly once (the same condition as C04's weak clause)
C06_EditUnderConflict_A == C04_WeakUnderArrayConflict_A
C06_EditUnderConflict_C == C04_WeakUnderArrayConflict_C
\* C07: once committed, a resolution propagates and independent resolutions converge (C01's predicates on the
\* histories in which something was resolved)
C07_Propagates_A == h.resolved /\ C01_SyncReaches_A
C07_Propagates_C == C01_SyncReaches_C
C07_ResolvedConverge_A == h.resolved /\ C01_SameItemsSameView_A
C07_ResolvedConverge_C == C01_SameItemsSameView_C

-----------------------------------------------------------------------------
(* Evaluation: count antecedents, print violations *)
Chk(k, name, a, c) ==
    IF a THEN /\ TLCSet(k, TLCGet(k) + 1)
              /\ (c \/ PrintT(<<"VIOLATION", name, E.run, E.i, E.op, l>>))
    ELSE TRUE

Names == <<"C08_Returns", "C05_WinnerRule", "C05_TreeFromBlocks", "C02_AppliedComplete", "C02_RefreshApplies",
           "C02_RefreshEqualsReload", "C02_HeldBackThenApplied", "C13_Graph", "C13_Commit", "C13_ReadBack",
           "C11_Names", "C11_AppendOnly", "C11_SameBytes", "C01_SameItemsSameView", "C01_SyncReaches",
           "C03_Durable", "C04_Exact", "C04_WeakUnderArrayConflict", "C04_Idempotent", "C04_EmptyCommit",
           "C06_ArrayView", "C16_Reconstructs", "C16_StoredEqualsSubmitted", "C07_Resolve",
           "C09_CommitWriteOrder", "C09_CrashAtomic", "C09_FailedCommit", "C10_ErrorOrIntact",
           "C10_NoAlteredContent", "C12_NoDocChange", "C14_Travel", "C14_Retrievable", "C15_CommitCleans",
           "C15_Guards", "C15_Unstage", "C15_ExportReplay", "C19_Canonical", "C19_LeafOrderTotal", "C09_RetryDurable", "D_FrameStorage", "D_FrameMemory",
           "X_UpdateStep", "X_ResolveStep", "X_ResolveRefused", "X_MeldStep", "X_UnstageStep", "X_CommitStep",
           "C15_StageComplete", "X_ObjStep", "X_SnapshotStep", "X_ExportPure",
           "C02_HeldBackInvisible", "C07_Propagates", "C07_ResolvedConverge", "C06_EditUnderConflict">>

AllChecks ==
    /\ Chk(1, Names[1], C08_Returns_A, C08_Returns_C)
    /\ Chk(2, Names[2], C05_WinnerRule_A, C05_WinnerRule_C)
    /\ Chk(3, Names[3], C05_TreeFromBlocks_A, C05_TreeFromBlocks_C)
    /\ Chk(4, Names[4], C02_AppliedComplete_A, C02_AppliedComplete_C)
    /\ Chk(5, Names[5], C02_RefreshApplies_A, C02_RefreshApplies_C)
    /\ Chk(6, Names[6], C02_RefreshEqualsReload_A, C02_RefreshEqualsReload_C)
    /\ Chk(7, Names[7], C02_HeldBackThenApplied_A, C02_HeldBackThenApplied_C)
    /\ Chk(8, Names[8], C13_Graph_A, C13_Graph_C)
    /\ Chk(9, Names[9], C13_Commit_A, C13_Commit_C)
    /\ Chk(10, Names[10], C13_ReadBack_A, C13_ReadBack_C)
    /\ Chk(11, Names[11], C11_Names_A, C11_Names_C)
    /\ Chk(12, Names[12], C11_AppendOnly_A, C11_AppendOnly_C)
    /\ Chk(13, Names[13], C11_SameBytes_A, C11_SameBytes_C)
    /\ Chk(14, Names[14], C01_SameItemsSameView_A, C01_SameItemsSameView_C)
    /\ Chk(15, Names[15], C01_SyncReaches_A, C01_SyncReaches_C)
    /\ Chk(16, Names[16], C03_Durable_A, C03_Durable_C)
    /\ Chk(17, Names[17], C04_Exact_A, C04_Exact_C)
    /\ Chk(18, Names[18], C04_WeakUnderArrayConflict_A, C04_WeakUnderArrayConflict_C)
    /\ Chk(19, Names[19], C04_Idempotent_A, C04_Idempotent_C)
    /\ Chk(20, Names[20], C04_EmptyCommit_A, C04_EmptyCommit_C)
    /\ Chk(21, Names[21], C06_ArrayView_A, C06_ArrayView_C)
    /\ Chk(22, Names[22], C16_Reconstructs_A, C16_Reconstructs_C)
    /\ Chk(23, Names[23], C16_StoredEqualsSubmitted_A, C16_StoredEqualsSubmitted_C)
    /\ Chk(24, Names[24], C07_Resolve_A, C07_Resolve_C)
    /\ Chk(25, Names[25], C09_CommitWriteOrder_A, C09_CommitWriteOrder_C)
    /\ Chk(26, Names[26], C09_CrashAtomic_A, C09_CrashAtomic_C)
    /\ Chk(27, Names[27], C09_FailedCommit_A, C09_FailedCommit_C)
    /\ Chk(28, Names[28], C10_ErrorOrIntact_A, C10_ErrorOrIntact_C)
    /\ Chk(29, Names[29], C10_NoAlteredContent_A, C10_NoAlteredContent_C)
    /\ Chk(30, Names[30], C12_NoDocChange_A, C12_NoDocChange_C)
    /\ Chk(31, Names[31], C14_Travel_A, C14_Travel_C)
    /\ Chk(32, Names[32], C14_Retrievable_A, C14_Retrievable_C)
    /\ Chk(33, Names[33], C15_CommitCleans_A, C15_CommitCleans_C)
    /\ Chk(34, Names[34], C15_Guards_A, C15_Guards_C)
    /\ Chk(35, Names[35], C15_Unstage_A, C15_Unstage_C)
    /\ Chk(36, Names[36], C15_ExportReplay_A, C15_ExportReplay_C)
    /\ Chk(37, Names[37], C19_Canonical_A, C19_Canonical_C)
    /\ Chk(38, Names[38], C19_LeafOrderTotal_A, C19_LeafOrderTotal_C)
    /\ Chk(39, Names[39], C09_RetryDurable_A, C09_RetryDurable_C)
    /\ Chk(40, Names[40], D_FrameStorage_A, D_FrameStorage_C)
    /\ Chk(41, Names[41], D_FrameMemory_A, D_FrameMemory_C)
    /\ Chk(42, Names[42], X_UpdateStep_A, X_UpdateStep_C)
    /\ Chk(43, Names[43], X_ResolveStep_A, X_ResolveStep_C)
    /\ Chk(44, Names[44], X_ResolveRefused_A, X_ResolveRefused_C)
    /\ Chk(45, Names[45], X_MeldStep_A, X_MeldStep_C)
    /\ Chk(46, Names[46], X_UnstageStep_A, X_UnstageStep_C)
    /\ Chk(47, Names[47], X_CommitStep_A, X_CommitStep_C)
    /\ Chk(48, Names[48], C15_StageComplete_A, C15_StageComplete_C)
    /\ Chk(49, Names[49], X_ObjStep_A, X_ObjStep_C)
    /\ Chk(50, Names[50], X_SnapshotStep_A, X_SnapshotStep_C)
    /\ Chk(51, Names[51], X_ExportPure_A, X_ExportPure_C)
    /\ Chk(52, Names[52], C02_HeldBackInvisible_A, C02_HeldBackInvisible_C)
    /\ Chk(53, Names[53], C07_Propagates_A, C07_Propagates_C)
    /\ Chk(54, Names[54], C07_ResolvedConverge_A, C07_ResolvedConverge_C)
    /\ Chk(55, Names[55], C06_EditUnderConflict_A, C06_EditUnderConflict_C)

\* the same predicates as individually named invariants (MeldaTraceStrict.cfg)
C08_Returns == C08_Returns_A => C08_Returns_C
C05_WinnerRule == C05_WinnerRule_A => C05_WinnerRule_C
C05_TreeFromBlocks == C05_TreeFromBlocks_A => C05_TreeFromBlocks_C
C02_AppliedComplete == C02_AppliedComplete_A => C02_AppliedComplete_C
C02_RefreshApplies == C02_RefreshApplies_A => C02_RefreshApplies_C
C02_RefreshEqualsReload == C02_RefreshEqualsReload_A => C02_RefreshEqualsReload_C
C02_HeldBackThenApplied == C02_HeldBackThenApplied_A => C02_HeldBackThenApplied_C
C13_Graph == C13_Graph_A => C13_Graph_C
C13_Commit == C13_Commit_A => C13_Commit_C
C13_ReadBack == C13_ReadBack_A => C13_ReadBack_C
C11_Names == C11_Names_A => C11_Names_C
C11_AppendOnly == C11_AppendOnly_A => C11_AppendOnly_C
C11_SameBytes == C11_SameBytes_A => C11_SameBytes_C
C01_SameItemsSameView == C01_SameItemsSameView_A => C01_SameItemsSameView_C
C01_SyncReaches == C01_SyncReaches_A => C01_SyncReaches_C
C03_Durable == C03_Durable_A => C03_Durable_C
C04_Exact == C04_Exact_A => C04_Exact_C
C04_WeakUnderArrayConflict == C04_WeakUnderArrayConflict_A => C04_WeakUnderArrayConflict_C
C04_Idempotent == C04_Idempotent_A => C04_Idempotent_C
C04_EmptyCommit == C04_EmptyCommit_A => C04_EmptyCommit_C
C06_ArrayView == C06_ArrayView_A => C06_ArrayView_C
C16_Reconstructs == C16_Reconstructs_A => C16_Reconstructs_C
C16_StoredEqualsSubmitted == C16_StoredEqualsSubmitted_A => C16_StoredEqualsSubmitted_C
C07_Resolve == C07_Resolve_A => C07_Resolve_C
C09_CommitWriteOrder == C09_CommitWriteOrder_A => C09_CommitWriteOrder_C
C09_CrashAtomic == C09_CrashAtomic_A => C09_CrashAtomic_C
C09_FailedCommit == C09_FailedCommit_A => C09_FailedCommit_C
C10_ErrorOrIntact == C10_ErrorOrIntact_A => C10_ErrorOrIntact_C
C10_NoAlteredContent == C10_NoAlteredContent_A => C10_NoAlteredContent_C
C12_NoDocChange == C12_NoDocChange_A => C12_NoDocChange_C
C14_Travel == C14_Travel_A => C14_Travel_C
C14_Retrievable == C14_Retrievable_A => C14_Retrievable_C
C15_CommitCleans == C15_CommitCleans_A => C15_CommitCleans_C
C15_Guards == C15_Guards_A => C15_Guards_C
C15_Unstage == C15_Unstage_A => C15_Unstage_C
C15_ExportReplay == C15_ExportReplay_A => C15_ExportReplay_C
C19_Canonical == C19_Canonical_A => C19_Canonical_C
C19_LeafOrderTotal == C19_LeafOrderTotal_A => C19_LeafOrderTotal_C
C09_RetryDurable == C09_RetryDurable_A => C09_RetryDurable_C
C15_StageComplete == C15_StageComplete_A => C15_StageComplete_C

-----------------------------------------------------------------------------
\* every line of the trace must be consumed; prints the antecedent counters
Accepted ==
    /\ PrintT(<<"COUNTS", [i \in 1..Len(Names) |-> <<Names[i], TLCGet(i)>>]>>)
    /\ PrintT(<<"CONSUMED", TLCGet("stats").diameter, Len(Rec)>>)
    /\ TLCGet("stats").diameter = Len(Rec)
=============================================================================
