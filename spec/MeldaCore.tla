--------------------------- MODULE MeldaCore ---------------------------
(***************************************************************************)
(* Definitions shared by the bounded model (Melda.tla) and by trace        *)
(* validation (MeldaTrace.tla): revision trees, the winner rule, stored    *)
(* items, causal completeness, the commit graph.  The module is            *)
(* parameterised by the representation of revisions so that the same text  *)
(* is evaluated on abstract revisions (sequences of contents) and on the   *)
(* concrete identifiers recorded from libmelda.                            *)
(*                                                                         *)
(*   tree   : a set of records [rev, par, st]   (par = NoRev for creations)*)
(*   item   : a record [name, kind, ok, idx, parents, packs, changes, objs]*)
(*            kind \in {"delta","pack","other"};  ok = the bytes hash to   *)
(*            the name and respect the block grammar; parents, packs: sets *)
(*            of names; changes: set of [o, rev, prev]; objs: set of       *)
(*            object digests contained in a pack                           *)
(***************************************************************************)
EXTENDS Naturals, Sequences, FiniteSets

CONSTANTS RevLess(_, _),   \* strict total order on revisions (C05: markers lowest, index, bytes)
          Idx(_),          \* index of a revision
          IsRes(_),        \* resolution marker?
          SpecialRev(_),   \* value needs no stored object (deleted / resolved / empty / charcode)
          DigOf(_),        \* object digest of a revision
          NoRev            \* "no parent"

-----------------------------------------------------------------------------
(* Revision trees and the winner rule (C05) *)

Revs(T) == {e.rev : e \in T}
ParOf(T, r) == (CHOOSE e \in T : e.rev = r).par

\* revisions whose ancestry reaches a creation revision (index 1, no parent): least fixpoint
RECURSIVE RootedFix(_, _)
RootedFix(T, R) ==
    LET R2 == R \cup {e.rev : e \in {x \in T : x.par \in R}} IN
    IF R2 = R THEN R ELSE RootedFix(T, R2)
RootedSet(T) == RootedFix(T, {e.rev : e \in {x \in T : x.par = NoRev /\ Idx(x.rev) = 1}})
Rooted(T, r) == r \in RootedSet(T)

IsParent(T, r) == \E e \in T : e.par = r
LiveLeaves(T) ==
    LET ps == {e.par : e \in T}
        rs == RootedSet(T)
    IN {r \in Revs(T) : ~IsRes(r) /\ r \notin ps /\ r \in rs}
MaxRev(S) == CHOOSE x \in S : \A y \in S : y = x \/ RevLess(y, x)
Winner(T) == IF LiveLeaves(T) = {} THEN NoRev ELSE MaxRev(LiveLeaves(T))
Conflicting(T) == LiveLeaves(T) \ {Winner(T)}
InConflict(T) == Cardinality(LiveLeaves(T)) > 1

\* a strict total order on a finite set S
StrictTotalOn(S) ==
    /\ \A a \in S : ~RevLess(a, a)
    /\ \A a, b \in S : a # b => (RevLess(a, b) /\ ~RevLess(b, a)) \/ (RevLess(b, a) /\ ~RevLess(a, b))
    /\ \A a, b, c \in S : RevLess(a, b) /\ RevLess(b, c) => RevLess(a, c)

-----------------------------------------------------------------------------
(* Stored items, causal completeness (C02), commit graph (C13) *)

Blocks(I) == {i \in I : i.kind = "delta"}
Packs(I)  == {i \in I : i.kind = "pack"}
Names(S)  == {i.name : i \in S}
Avail(I)  == UNION {p.objs : p \in {q \in Packs(I) : q.ok}}
Readable(I, r) == SpecialRev(r) \/ DigOf(r) \in Avail(I)

MaxIdx(I) == IF Blocks(I) = {} THEN 0 ELSE CHOOSE n \in {b.idx : b \in Blocks(I)} : \A b \in Blocks(I) : b.idx <= n

LocalOKAv(I, av, b) ==
    /\ b.ok
    /\ \A k \in b.packs : \E q \in Packs(I) : q.name = k /\ q.ok
    /\ \A c \in b.changes : (SpecialRev(c.rev) \/ DigOf(c.rev) \in av)
                              /\ (c.prev # NoRev => (SpecialRev(c.prev) \/ DigOf(c.prev) \in av))
LocalOK(I, b) == LocalOKAv(I, Avail(I), b)

\* Complete blocks, built level by level on the block index (a complete block's parents all have a
\* smaller index, and its index is one more than its highest parent's)
CCLevels(I, av, n, acc) ==
    acc \cup {b \in Blocks(I) :
                 /\ b.idx = n
                 /\ LocalOKAv(I, av, b)
                 /\ b.parents \subseteq Names(acc)
                 /\ \A p \in acc : p.name \in b.parents => p.idx < n
                 /\ IF b.parents = {} THEN n = 1
                    ELSE \E p \in acc : p.name \in b.parents /\ p.idx = n - 1}
RECURSIVE CCFrom(_, _, _, _, _)
CCFrom(I, av, n, maxn, acc) == IF n > maxn THEN acc ELSE CCFrom(I, av, n + 1, maxn, CCLevels(I, av, n, acc))
CC(I) == CCFrom(I, Avail(I), 1, MaxIdx(I), {})

\* ancestors (within B) of the blocks named in H
RECURSIVE AncN(_, _, _)
AncN(B, H, fuel) ==
    LET next == H \cup UNION {b.parents : b \in {x \in B : x.name \in H}} IN
    IF next = H \/ fuel = 0 THEN H ELSE AncN(B, next, fuel - 1)
Anc(B, H) == AncN(B, H, Cardinality(B) + 1)

HeadsOf(B) == Names(B) \ UNION {b.parents : b \in B}
AncestorClosed(B) == \A b \in B : b.parents \subseteq Names(B)
IndexRule(B) == \A b \in B : \A p \in B : p.name \in b.parents => p.idx < b.idx

ObjsOf(B) == {c.o : c \in UNION {b.changes : b \in B}}
TreeOf(B, o) == {[rev |-> c.rev, par |-> c.prev] : c \in {x \in UNION {b.changes : b \in B} : x.o = o}}
Committed(T) == {[rev |-> e.rev, par |-> e.par] : e \in {x \in T : ~x.st}}
Unstaged(T) == {e \in T : ~e.st}
=============================================================================
