--------------------------- MODULE MeldaCore ---------------------------
(***************************************************************************)
(* Definitions shared by the bounded model (Melda.tla) and by trace        *)
(* validation (MeldaTrace.tla): revision trees, the winner rule, stored    *)
(* items, causal completeness, the commit graph.  The module is            *)
(* parameterised by the representation of revisions so that the same text  *)
(* is evaluated on abstract revisions (sequences of contents) and on the   *)
(* concrete identifiers recorded from libmelda.                            *)
(*                                                                         *)
(*   tree   : a set of records [rev, par, st]   (par = NoRev for creations)*)
(*   item   : a record [name, kind, ok, idx, parents, packs, changes, objs]*)
(*            kind \in {"delta","pack","other"};  ok = the bytes hash to   *)
(*            the name and respect the block grammar; parents, packs: sets *)
(*            of names; changes: set of [o, rev, prev]; objs: set of       *)
(*            object digests contained in a pack                           *)
(***************************************************************************)
EXTENDS Naturals, Sequences, FiniteSets

CONSTANTS RevLess(_, _),   \* strict total order on revisions (C05: markers lowest, index, bytes)
          Idx(_),          \* index of a revision
          IsRes(_),        \* resolution marker?
          SpecialRev(_),   \* value needs no stored object (deleted / resolved / empty / charcode)
          DigOf(_),        \* object digest of a revision
          NoRev            \* "no parent"

-----------------------------------------------------------------------------
(* Revision trees and the winner rule (C05) *)

Revs(T) == {e.rev : e \in T}
ParOf(T, r) == (CHOOSE e \in T : e.rev = r).par

RECURSIVE RootedN(_, _, _)
RootedN(T, r, fuel) ==
    /\ fuel > 0
    /\ r \in Revs(T)
    /\ LET p == ParOf(T, r) IN
       IF p = NoRev THEN Idx(r) = 1
       ELSE RootedN(T, p, fuel - 1)
Rooted(T, r) == RootedN(T, r, Cardinality(T) + 1)

IsParent(T, r) == \E e \in T : e.par = r
LiveLeaves(T) == {r \in Revs(T) : ~IsRes(r) /\ ~IsParent(T, r) /\ Rooted(T, r)}
MaxRev(S) == CHOOSE x \in S : \A y \in S : y = x \/ RevLess(y, x)
Winner(T) == IF LiveLeaves(T) = {} THEN NoRev ELSE MaxRev(LiveLeaves(T))
Conflicting(T) == LiveLeaves(T) \ {Winner(T)}
InConflict(T) == Cardinality(LiveLeaves(T)) > 1

\* a strict total order on a finite set S
StrictTotalOn(S) ==
    /\ \A a \in S : ~RevLess(a, a)
    /\ \A a, b \in S : a # b => (RevLess(a, b) /\ ~RevLess(b, a)) \/ (RevLess(b, a) /\ ~RevLess(a, b))
    /\ \A a, b, c \in S : RevLess(a, b) /\ RevLess(b, c) => RevLess(a, c)

-----------------------------------------------------------------------------
(* Stored items, causal completeness (C02), commit graph (C13) *)

Blocks(I) == {i \in I : i.kind = "delta"}
Packs(I)  == {i \in I : i.kind = "pack"}
Names(S)  == {i.name : i \in S}
Avail(I)  == UNION {p.objs : p \in {q \in Packs(I) : q.ok}}
Readable(I, r) == SpecialRev(r) \/ DigOf(r) \in Avail(I)

MaxIdx(I) == IF Blocks(I) = {} THEN 0 ELSE CHOOSE n \in {b.idx : b \in Blocks(I)} : \A b \in Blocks(I) : b.idx <= n

\* parent index of a named parent: taken from the stored parent (absent parents make the block incomplete anyway)
LocalOK(I, b) ==
    /\ b.ok
    /\ \A k \in b.packs : \E q \in Packs(I) : q.name = k /\ q.ok
    /\ \A c \in b.changes : Readable(I, c.rev) /\ (c.prev # NoRev => Readable(I, c.prev))

\* Complete blocks, built level by level on the block index
RECURSIVE CCUpTo(_, _)
CCUpTo(I, n) ==
    IF n = 0 THEN {}
    ELSE LET below == CCUpTo(I, n - 1)
             bn == Names(below)
         IN  below \cup {b \in Blocks(I) :
                           /\ b.idx = n
                           /\ LocalOK(I, b)
                           /\ b.parents \subseteq bn
                           /\ \A p \in below : p.name \in b.parents => p.idx < n
                           /\ IF b.parents = {} THEN n = 1
                              ELSE \E p \in below : p.name \in b.parents /\ p.idx = n - 1}
CC(I) == CCUpTo(I, MaxIdx(I))

\* ancestors (within B) of the blocks named in H
RECURSIVE AncN(_, _, _)
AncN(B, H, fuel) ==
    LET next == H \cup UNION {b.parents : b \in {x \in B : x.name \in H}} IN
    IF next = H \/ fuel = 0 THEN H ELSE AncN(B, next, fuel - 1)
Anc(B, H) == AncN(B, H, Cardinality(B) + 1)

HeadsOf(B) == Names(B) \ UNION {b.parents : b \in B}
AncestorClosed(B) == \A b \in B : b.parents \subseteq Names(B)
IndexRule(B) == \A b \in B : \A p \in B : p.name \in b.parents => p.idx < b.idx

ObjsOf(B) == {c.o : c \in UNION {b.changes : b \in B}}
TreeOf(B, o) == {[rev |-> c.rev, par |-> c.prev] : c \in {x \in UNION {b.changes : b \in B} : x.o = o}}
Committed(T) == {[rev |-> e.rev, par |-> e.par] : e \in {x \in T : ~x.st}}
Unstaged(T) == {e \in T : ~e.st}
=============================================================================
