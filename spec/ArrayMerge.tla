----------------------------- MODULE ArrayMerge -----------------------------
(***************************************************************************)
(* C06 at function level.                                                  *)
(*   MergeOK(m, n, out)  the relation the property demands of merging the  *)
(*                       other version m into the base (winning) version n *)
(*   Merge(m, n)         a transcription of utils::merge_arrays (pivot /   *)
(*                       insertion-point loop); TLC shows (ASSUME in       *)
(*                       ArrayMergeMC) that it satisfies MergeOK on every  *)
(*                       pair of the bound                                 *)
(***************************************************************************)
EXTENDS Naturals, Sequences, FiniteSets, SequencesExt

Set(s) == {s[i] : i \in DOMAIN s}
NoDup(s) == \A i, j \in DOMAIN s : i # j => s[i] # s[j]
Sub(s, S) == SelectSeq(s, LAMBDA x : x \in S)
AgreeOnCommon(s, t) == Sub(s, Set(t)) = Sub(t, Set(s))

MergeOK(m, n, out) ==
    /\ NoDup(out)                                        \* (a) nothing duplicated
    /\ Set(out) = Set(m) \cup Set(n)                     \*     nothing lost, nothing invented
    /\ Sub(out, Set(n)) = n                              \* (b) the base keeps its order
    /\ (AgreeOnCommon(m, n) => Sub(out, Set(m)) = m)     \* (c) no disagreement => the other order is kept too

\* folding several versions into a base: (a) and (b) only
FoldOK(ms, n, out) ==
    /\ NoDup(out)
    /\ Set(out) = Set(n) \cup UNION {Set(m) : m \in ms}
    /\ Sub(out, Set(n)) = n

Pos(s, e) == CHOOSE i \in 1..Len(s) : s[i] = e
In(s, e) == \E i \in 1..Len(s) : s[i] = e
RECURSIVE MergeLoop(_, _, _, _, _)
MergeLoop(m, n, cur, ins, pivot) ==       \* cur: 1-based position in m; ins, pivot: 0-based as in the code
    IF cur > Len(m) THEN n
    ELSE LET t == m[cur] IN
         IF In(n, t) THEN MergeLoop(m, n, cur + 1, Pos(n, t) - 1, pivot)
         ELSE IF cur - 1 < pivot THEN MergeLoop(m, InsertAt(n, ins + 1, t), cur + 1, ins, cur - 1)
         ELSE MergeLoop(m, InsertAt(n, ins + 2, t), cur + 1, ins + 1, pivot)
FirstCommon(m, n) == IF \E i \in 1..Len(m) : In(n, m[i])
                     THEN CHOOSE i \in 1..Len(m) : In(n, m[i]) /\ \A j \in 1..(i - 1) : ~In(n, m[j])
                     ELSE 0
Merge(m, n) == IF n = <<>> THEN m ELSE IF m = <<>> THEN n
               ELSE LET fc == FirstCommon(m, n) IN
                    MergeLoop(m, n, 1, IF fc = 0 THEN 0 ELSE Pos(n, m[fc]) - 1, IF fc = 0 THEN Len(m) ELSE fc - 1)
=============================================================================
