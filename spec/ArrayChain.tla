----------------------------- MODULE ArrayChain -----------------------------
(***************************************************************************)
(* C16, the cache-dependent part: Melda::rebuild_array_order reconstructs  *)
(* the order of an array version stored as an edit script by walking its   *)
(* ancestors until a full descriptor or a cached order is found, applies   *)
(* the scripts in reverse, and inserts the result in an LRU cache of       *)
(* capacity K.  This module transcribes that walk step by step and lets    *)
(* TLC check, for every sequence of accesses over a small version tree and *)
(* every capacity, that every rebuilt order and every cache entry is the   *)
(* true order of its version.                                              *)
(*                                                                         *)
(* Orders are abstract: True(v) is the order submitted as version v; the   *)
(* script stored for v turns True(parent(v)) into True(v) and anything     *)
(* else into BAD.  A deleted version reads as the empty order EMPTY.       *)
(***************************************************************************)
EXTENDS Naturals, Sequences, FiniteSets, TLC

CONSTANTS N,        \* versions 1..N
          Par,      \* parent of each version (0 = none), a function 1..N -> 0..N
          Kind,     \* "A" full descriptor | "a" edit script | "d" deleted
          K,        \* cache capacity
          Bug

Ver == 1..N
BAD == <<"bad", 0>>
EMPTY == <<"empty", 0>>
True(v) == IF Kind[v] = "d" THEN EMPTY ELSE <<"order", v>>
Base(v) == IF Par[v] = 0 THEN EMPTY ELSE True(Par[v])
ApplyScript(v, x) == IF x = Base(v) THEN True(v) ELSE BAD
IsDiff(v) == Kind[v] = "a"

VARIABLES cache,    \* sequence of <<version, order>>, most recently used first
          last      \* the last access: [v, res]
vars == <<cache, last>>

InCache(c, v) == \E i \in DOMAIN c : c[i][1] = v
Lookup(c, v) == (CHOOSE i \in DOMAIN c : c[i][1] = v)
Promote(c, v) == LET i == Lookup(c, v) IN <<c[i]>> \o SubSeq(c, 1, i - 1) \o SubSeq(c, i + 1, Len(c))
Put(c, v, o) == LET c1 == IF InCache(c, v) THEN SubSeq(c, 1, Lookup(c, v) - 1) \o SubSeq(c, Lookup(c, v) + 1, Len(c)) ELSE c
                    c2 == <<<<v, o>>>> \o c1
                IN IF Len(c2) > K THEN SubSeq(c2, 1, K) ELSE c2

\* step 3: the history of parents, stopping after the first cached ancestor (contains() does not promote)
RECURSIVE History(_, _)
History(c, cur) ==
    IF Par[cur] = 0 THEN <<>>
    ELSE LET p == Par[cur] IN
         IF InCache(c, p) THEN <<p>> ELSE <<p>> \o History(c, p)

\* step 4: walk the history collecting scripts until a cached order (get() promotes) or a full descriptor
\* returns [c |-> cache, descs |-> scripts to apply (nearest first), order |-> starting order]
RECURSIVE Walk(_, _, _)
Walk(c, hist, descs) ==
    IF hist = <<>> THEN [c |-> c, descs |-> descs, order |-> EMPTY]
    ELSE LET r == Head(hist) IN
         IF "skip_deleted" \in Bug /\ Kind[r] = "d" THEN Walk(c, Tail(hist), descs)
         ELSE IF InCache(c, r) THEN [c |-> Promote(c, r), descs |-> descs, order |-> c[Lookup(c, r)][2]]
         ELSE IF IsDiff(r) THEN Walk(c, Tail(hist), Append(descs, r))
         ELSE [c |-> c, descs |-> descs, order |-> True(r)]

RECURSIVE ApplyAll(_, _)
ApplyAll(descs, o) ==      \* descs: nearest first, so the farthest script is applied first
    IF descs = <<>> THEN o ELSE ApplyScript(Head(descs), ApplyAll(Tail(descs), o))

\* with the seeded defect of seeded/C16: intermediate results are cached, each under its child's ancestor key
RECURSIVE CacheIntermediate(_, _, _, _)
CacheIntermediate(c, descs, hist, o) ==
    IF "cache_off_by_one" \notin Bug \/ Len(descs) <= 1 THEN c
    ELSE LET far == descs[Len(descs)]
             o1 == ApplyScript(far, o)
             key == IF Len(descs) <= Len(hist) THEN hist[Len(descs)] ELSE far
         IN CacheIntermediate(Put(c, key, o1), SubSeq(descs, 1, Len(descs) - 1), hist, o1)

Rebuild(c, v) ==
    IF InCache(c, v) THEN [c |-> Promote(c, v), res |-> c[Lookup(c, v)][2]]
    ELSE IF ~IsDiff(v) THEN [c |-> c, res |-> True(v)]
    ELSE LET hist == History(c, v)
             w == Walk(c, hist, <<v>>)
             res == ApplyAll(w.descs, w.order)
             c1 == CacheIntermediate(w.c, w.descs, hist, w.order)
         IN [c |-> Put(c1, v, res), res |-> res]

Init == cache = <<>> /\ last = [v |-> 0, res |-> EMPTY]
Access(v) == LET r == Rebuild(cache, v) IN cache' = r.c /\ last' = [v |-> v, res |-> r.res]
Next == \E v \in Ver : Access(v)
Spec == Init /\ [][Next]_vars

\* C16: whatever the access sequence and the capacity, every rebuilt order is the one submitted
RebuildCorrect == last.v # 0 => last.res = True(last.v)
CacheCorrect == \A i \in DOMAIN cache : cache[i][2] = True(cache[i][1])
CacheBounded == Len(cache) <= K /\ \A i, j \in DOMAIN cache : i # j => cache[i][1] # cache[j][1]
=============================================================================
