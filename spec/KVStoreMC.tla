----------------------------- MODULE KVStoreMC -----------------------------
(* A tiny exhaustive model of the write-once store: whatever the order of writes, a key keeps the
   value of its first write and the store only grows (the design-level part of C11 / C17). *)
EXTENDS Naturals, FiniteSets, TLC
CONSTANTS Keys, Vals
VARIABLES kv, first
Init == kv = <<>> /\ first = <<>>
Write(k, v) == /\ kv' = IF k \in DOMAIN kv THEN kv ELSE (k :> v) @@ kv
               /\ first' = IF k \in DOMAIN first THEN first ELSE (k :> v) @@ first
Next == \E k \in Keys, v \in Vals : Write(k, v)
Spec == Init /\ [][Next]_<<kv, first>>
FirstWriteWins == kv = first
AppendOnly == [][DOMAIN kv \subseteq DOMAIN kv' /\ \A k \in DOMAIN kv : kv'[k] = kv[k]]_<<kv, first>>
=============================================================================
