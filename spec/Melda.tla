------------------------------- MODULE Melda -------------------------------
(***************************************************************************)
(* Level I: an implementation-shaped, bounded model of libmelda replicas.  *)
(*                                                                         *)
(* One action per public operation / critical section of src/melda.rs:     *)
(*   Edit        update(doc): per object create / update / delete against  *)
(*               the current winners                                       *)
(*   Commit*     commit(): auto-resolution of array conflicts, pack write, *)
(*               block write, registration -- with every outcome a crash   *)
(*               or a failing storage write can produce (nw = number of    *)
(*               writes that reached storage)                              *)
(*   Copy        one stored item copied by any file synchroniser           *)
(*   Meld*       meld(other): blocks first, then packs; MeldCrash stops    *)
(*               after any prefix of the writes                            *)
(*   Refresh, Reload, Reopen, ReloadUntil, Resolve, Unstage, Snapshot,     *)
(*   Crash, Damage                                                         *)
(*                                                                         *)
(* Revisions are non-empty sequences of contents (parent = Front): the     *)
(* hash chain.  Blocks and packs are content-addressed records.  Shared    *)
(* definitions (winner rule, causal completeness, commit graph) come from  *)
(* MeldaCore -- the same module trace validation evaluates on the real     *)
(* identifiers.  `Bug` re-introduces known and classic defects: with       *)
(* Bug = {} every property holds; each switch must break the property it   *)
(* is meant to break (non-vacuity; tools/specmutants.py).                  *)
(***************************************************************************)
EXTENDS Naturals, Sequences, FiniteSets, SequencesExt, FiniteSetsExt, TLC, Json

CONSTANTS Replica, Elem, ArrKeys, Val,
          MaxBlocks, MaxEdits, MaxCrash, MaxFail, MaxDamage, MaxOps,
          Feat,         \* enabled action groups
          Bug           \* defect switches

-----------------------------------------------------------------------------
(* Contents and revisions *)
C(k, v, o) == [k |-> k, v |-> v, o |-> o]
DEL == C("d", 0, <<>>)
RES == C("r", 0, <<>>)
CV(n) == C("v", n, <<>>)                  \* element value
CR(n, ks) == C("R", n, ks)                \* root: value + sequence of present array keys
CA(ord) == C("A", 0, ord)                 \* full array descriptor
Ca(ord) == C("a", 0, ord)                 \* delta array descriptor (resulting order)

ROOT == "root"
Arr(k) == "arr_" \o k
ArrObjs == {Arr(k) : k \in ArrKeys}
KeyOfArr(a) == CHOOSE k \in ArrKeys : Arr(k) = a
RAW == "raw"                               \* an object handled through the object-level API only
Obj == {ROOT} \cup ArrObjs \cup Elem \cup (IF "objapi" \in Feat THEN {RAW} ELSE {})
NoRev == <<>>

RIdx(rev) == Len(rev)
RIsRes(rev) == Last(rev) = RES
RIsDel(rev) == Last(rev) = DEL
RSpecial(rev) == Last(rev).k \in {"d", "r"}
RDig(rev) == Last(rev)

\* a fixed total order on contents; the deletion digest is ranked between two ordinary values
Symbols == ArrKeys \cup Elem
KeyRank == CHOOSE f \in [Symbols -> 1..Cardinality(Symbols)] : \A x, y \in Symbols : x # y => f[x] # f[y]
RECURSIVE SeqLess(_, _)
SeqLess(a, b) == IF a = <<>> THEN b # <<>>
                 ELSE IF b = <<>> THEN FALSE
                 ELSE IF Head(a) # Head(b) THEN KeyRank[Head(a)] < KeyRank[Head(b)]
                 ELSE SeqLess(Tail(a), Tail(b))
CRank(c) == CASE c.k = "r" -> 0
              [] c.k = "d" -> IF "del_high" \in Feat THEN 50 ELSE 3
              [] c.k = "v" -> 2 * c.v
              [] c.k = "R" -> 2 * c.v
              [] c.k = "A" -> 10
              [] c.k = "a" -> 11
CLess(a, b) == IF CRank(a) # CRank(b) THEN CRank(a) < CRank(b)
               ELSE IF a = b THEN FALSE
               ELSE SeqLess(a.o, b.o)
RECURSIVE RevLessSame(_, _)
RevLessSame(a, b) == IF a = b THEN FALSE
                     ELSE IF Last(a) # Last(b) THEN CLess(Last(a), Last(b))
                     ELSE RevLessSame(Front(a), Front(b))
MRevLess(a, b) ==
    IF RIsRes(a) /\ ~RIsRes(b) THEN ~("markers_not_lowest" \in Bug /\ Len(a) > Len(b))
    ELSE IF RIsRes(b) /\ ~RIsRes(a) THEN ("markers_not_lowest" \in Bug /\ Len(b) > Len(a))
    ELSE IF Len(a) # Len(b) THEN Len(a) < Len(b)
    ELSE RevLessSame(a, b)

Core == INSTANCE MeldaCore WITH RevLess <- MRevLess, Idx <- RIdx, IsRes <- RIsRes,
                                SpecialRev <- RSpecial, DigOf <- RDig, NoRev <- NoRev

Entry(rev, st) == [rev |-> rev, par |-> IF Len(rev) = 1 THEN NoRev ELSE Front(rev), st |-> st]

-----------------------------------------------------------------------------
VARIABLES store,    \* [Replica -> set of stored items]           (MeldaCore item records)
          known,    \* [Replica -> set of block records loaded in memory]
          applied,  \* [Replica -> set of names of applied blocks]
          apacks,   \* [Replica -> set of pack records indexed in memory]
          staged,   \* [Replica -> [Obj -> set of staged revisions]]
          sobjs,    \* [Replica -> set of staged object contents]
          ocache,   \* [Replica -> set of object contents in the in-memory object cache] (tracked when "cache" \in Feat)
          up,       \* [Replica -> BOOLEAN]   process alive
          cnt,      \* counters bounding the exploration
          seen,     \* set of <<head set, view>>: the views replicas had at their head sets (C14)
          act,      \* the last action (hidden by VIEW; read by the action properties)
          sched     \* the operations so far (hidden by VIEW), replayed in the real library
core == <<store, known, applied, apacks, staged, sobjs, ocache, up, cnt, seen>>
\* the same without the operation counter: under breadth-first search the first visit of a state is the one with
\* the fewest operations, so merging states that differ only in cnt.ops loses nothing within the MaxOps bound
coreNoOps == <<store, known, applied, apacks, staged, sobjs, ocache, up, [cnt EXCEPT !.ops = 0], seen>>
vars == <<store, known, applied, apacks, staged, sobjs, ocache, up, cnt, seen, act, sched>>

BlocksOf(S) == Core!Blocks(S)
PacksOf(S) == Core!Packs(S)
\* a "memory": the applied blocks and the staged revisions a replica reads from
MemBlocks(r) == {b \in known[r] : b.name \in applied[r]}
Mem(r) == [blocks |-> MemBlocks(r), st |-> staged[r]]
FreshMem(B) == [blocks |-> B, st |-> [o \in Obj |-> {}]]
TreeCM(m, o) == {[rev |-> e.rev, par |-> e.par, st |-> FALSE] : e \in Core!TreeOf(m.blocks, o)}
TreeM(m, o) == TreeCM(m, o) \cup {Entry(rev, TRUE) : rev \in m.st[o]}
WM(m, o) == Core!Winner(TreeM(m, o))
LeavesM(m, o) == Core!LiveLeaves(TreeM(m, o))
TreeC(r, o) == TreeCM(Mem(r), o)
Tree(r, o) == TreeM(Mem(r), o)
W(r, o) == WM(Mem(r), o)
Leaves(r, o) == LeavesM(Mem(r), o)
HasStaging(r) == \E o \in Obj : staged[r][o] # {}
Heads(r) == Core!HeadsOf(MemBlocks(r))
OrderOf(rev) == IF rev = NoRev \/ RSpecial(rev) THEN <<>> ELSE Last(rev).o

-----------------------------------------------------------------------------
(* merge_arrays (src/utils.rs): the transcription lives in ArrayMerge.tla *)
AM == INSTANCE ArrayMerge
In(s, e) == AM!In(s, e)
Merge(m, n) == AM!Merge(m, n)

RECURSIVE SortRevs(_)
SortRevs(S) == IF S = {} THEN <<>> ELSE LET mx == Core!MaxRev(S) IN Append(SortRevs(S \ {mx}), mx)
RECURSIVE FoldMerge(_, _)
FoldMerge(ls, base) == IF ls = <<>> THEN base ELSE FoldMerge(Tail(ls), Merge(OrderOf(Head(ls)), base))
\* get_merged_order_at_revision: all live leaves merged into the order of `base`
MergedOrder(T, base) == IF Cardinality(Core!LiveLeaves(T)) > 1 /\ ~("no_merge" \in Bug)
                        THEN FoldMerge(SortRevs(Core!LiveLeaves(T)), OrderOf(base))
                        ELSE OrderOf(base)

-----------------------------------------------------------------------------
(* read(): the document reconstructed from the winners *)
AliveM(m, o) == WM(m, o) # NoRev /\ ~RIsDel(WM(m, o))
Alive(r, o) == AliveM(Mem(r), o)
KeySeq == SetToSortSeq(ArrKeys, LAMBDA x, y : KeyRank[x] < KeyRank[y])
\* arrays are unflattened in key order; an element already used is not shown again
RECURSIVE ShowArrays(_, _, _)
ShowArrays(m, ks, used) ==
    IF ks = <<>> THEN <<>>
    ELSE LET k == Head(ks)
             a == Arr(k)
             mo == IF WM(m, a) = NoRev THEN <<>> ELSE MergedOrder(TreeM(m, a), WM(m, a))
             shown == SelectSeq(mo, LAMBDA e : (AliveM(m, e) \/ "ghosts" \in Bug) /\ e \notin used)
         IN <<[k |-> k, seq |-> [i \in 1..Len(shown) |-> <<shown[i], IF AliveM(m, shown[i]) THEN Last(WM(m, shown[i])).v ELSE 0>>]]>>
            \o ShowArrays(m, Tail(ks), used \cup Range(shown))
DocM(m) == IF TreeM(m, ROOT) = {} \/ ~AliveM(m, ROOT) THEN [ok |-> FALSE]
           ELSE LET rc == Last(WM(m, ROOT)) IN
                [ok |-> TRUE, rv |-> rc.v, arrs |-> ShowArrays(m, rc.o, {})]
Doc(r) == DocM(Mem(r))

\* abstract documents that can be submitted
Orders == {s \in UNION {[1..n -> Elem] : n \in 0..Cardinality(Elem)} : \A i, j \in DOMAIN s : i # j => s[i] # s[j]}
MinVal == CHOOSE v \in Val : \A w \in Val : v <= w
Docs == {d \in [rv : Val, ks : SUBSET ArrKeys, ord : [ArrKeys -> Orders], ev : [Elem -> Val]] :
            /\ \A k \in ArrKeys : k \notin d.ks => d.ord[k] = <<>>
            /\ \A k1, k2 \in d.ks : k1 # k2 => Range(d.ord[k1]) \cap Range(d.ord[k2]) = {}
            /\ \A e \in Elem : (\A k \in d.ks : ~In(d.ord[k], e)) => d.ev[e] = MinVal}
KeysOf(d) == SelectSeq(KeySeq, LAMBDA k : k \in d.ks)
DocOf(d) == [ok |-> TRUE, rv |-> d.rv,
             arrs |-> [i \in 1..Len(KeysOf(d)) |->
                         LET k == KeysOf(d)[i] IN
                         [k |-> k, seq |-> [j \in 1..Len(d.ord[k]) |-> <<d.ord[k][j], d.ev[d.ord[k][j]]>>]]]]

-----------------------------------------------------------------------------
ViewM(m) == [v |-> [o \in Obj |-> <<WM(m, o), LeavesM(m, o)>>], doc |-> DocM(m)]
ViewRec(r) == ViewM(Mem(r))
RIndex(r) == r            \* replicas are the naturals 0..N-1

Init ==
    /\ store = [r \in Replica |-> {}]
    /\ known = [r \in Replica |-> {}]
    /\ applied = [r \in Replica |-> {}]
    /\ apacks = [r \in Replica |-> {}]
    /\ staged = [r \in Replica |-> [o \in Obj |-> {}]]
    /\ sobjs = [r \in Replica |-> {}]
    /\ ocache = [r \in Replica |-> {}]
    /\ up = [r \in Replica |-> TRUE]
    /\ cnt = [edits |-> 0, blocks |-> 0, crash |-> 0, fail |-> 0, damage |-> 0, ops |-> 0]
    /\ seen = {}
    /\ act = [n |-> "Init"]
    /\ sched = <<>>

Bump(f) == [cnt EXCEPT ![f] = @ + 1, !.ops = @ + 1]
Tick == [cnt EXCEPT !.ops = @ + 1]
Budget == cnt.ops < MaxOps
Down(r) ==      \* the process dies: everything in memory is lost
    /\ up' = [up EXCEPT ![r] = FALSE]
    /\ known' = [known EXCEPT ![r] = {}] /\ applied' = [applied EXCEPT ![r] = {}]
    /\ apacks' = [apacks EXCEPT ![r] = {}]
    /\ staged' = [staged EXCEPT ![r] = [o \in Obj |-> {}]]
    /\ sobjs' = [sobjs EXCEPT ![r] = {}]
    /\ ocache' = [ocache EXCEPT ![r] = {}]

-----------------------------------------------------------------------------
(* update(doc) *)
NewRevs(r, o, c) ==                     \* update_object
    LET w == W(r, o) IN
    IF Tree(r, o) = {} THEN {<<c>>}
    ELSE IF w = NoRev THEN {}             \* object_has_no_winner (error path; unreachable when gating works)
    ELSE IF o \in ArrObjs
         THEN IF OrderOf(w) = c.o THEN {} ELSE {Append(w, Ca(c.o))}      \* arrays: diff against the winner's order
         ELSE IF Last(w) = c THEN {} ELSE {Append(w, c)}
DelRevs(r, o) ==                        \* delete_object
    LET w == W(r, o) IN
    IF Tree(r, o) = {} \/ w = NoRev \/ RIsDel(w) \/ RIsRes(w) \/ "no_delete_vanished" \in Bug THEN {} ELSE {Append(w, DEL)}

EditRevs(r, d) ==
    [o \in Obj |->
        IF o = ROOT THEN NewRevs(r, o, CR(d.rv, KeysOf(d)))
        ELSE IF o \in ArrObjs
             THEN IF KeyOfArr(o) \in d.ks THEN NewRevs(r, o, CA(d.ord[KeyOfArr(o)])) ELSE DelRevs(r, o)
        ELSE IF o = RAW THEN DelRevs(r, o)           \* update() deletes every tracked object that is not in the document
        ELSE IF \E k \in d.ks : In(d.ord[k], o) THEN NewRevs(r, o, CV(d.ev[o])) ELSE DelRevs(r, o)]

Storable(c) == c.k \notin {"d", "r"}
AvailMem(r) == UNION {p.objs : p \in apacks[r]}
StageObjs(r, revs) == {Last(x) : x \in {y \in revs : Storable(Last(y)) /\ Last(y) \notin AvailMem(r)}}
\* The object cache (DataStorage.cache): every object body written through write_object is cached, whether or
\* not it is staged; refresh consults the cache when it decides whether a block's objects are readable
\* (is_readable_and_valid_revision -> read_object).  unstage evicts the discarded bodies and reload empties
\* the cache (defects P13 / P12 before their repair: Bug "unstage_keeps_cache" / "reload_keeps_cache").
BodiesOf(revs) == {Last(x) : x \in {y \in revs : Storable(Last(y))}}
Cached(r, revs) == IF "cache" \in Feat THEN [ocache EXCEPT ![r] = @ \cup BodiesOf(revs)] ELSE ocache
CacheItems(c) == IF c = {} THEN {}
                 ELSE {[name |-> <<"c">>, kind |-> "pack", ok |-> TRUE, idx |-> 0, parents |-> {}, packs |-> {}, changes |-> {}, objs |-> c]}
ReloadedCache(r) == [ocache EXCEPT ![r] = IF "reload_keeps_cache" \in Bug THEN @ ELSE {}]

Edit(r, d) ==
    /\ up[r] /\ Budget /\ cnt.edits < MaxEdits
    /\ LET new == EditRevs(r, d) IN
       /\ staged' = [staged EXCEPT ![r] = [o \in Obj |-> @[o] \cup new[o]]]
       /\ sobjs' = [sobjs EXCEPT ![r] = @ \cup StageObjs(r, UNION {new[o] : o \in Obj})]
       /\ ocache' = Cached(r, UNION {new[o] : o \in Obj})
    /\ cnt' = Bump("edits")
    /\ act' = [n |-> "Edit", r |-> r, d |-> d]
    /\ sched' = Append(sched, [op |-> "update", r |-> RIndex(r), d |-> d])
    /\ UNCHANGED <<store, known, applied, apacks, up>>

-----------------------------------------------------------------------------
(* the object-level API used directly: create_object / update_object / delete_object / remove_object *)
StageOne(r, o, new, name, v) ==
    /\ staged' = [staged EXCEPT ![r][o] = @ \cup new]
    /\ sobjs' = [sobjs EXCEPT ![r] = @ \cup StageObjs(r, new)]
    /\ ocache' = Cached(r, new)
    /\ cnt' = Tick
    /\ act' = [n |-> name, r |-> r, o |-> o]
    /\ sched' = Append(sched, [op |-> name, r |-> RIndex(r), o |-> 0, val |-> v])
    /\ UNCHANGED <<store, known, applied, apacks, up>>
ObjCreate(r, v) ==      \* records a creation revision whether or not the object is already tracked
    /\ "objapi" \in Feat /\ up[r] /\ Budget
    /\ StageOne(r, RAW, IF \E e \in Tree(r, RAW) : e.rev = <<CV(v)>> THEN {} ELSE {<<CV(v)>>}, "obj_create", v)
ObjUpdate(r, v) ==
    /\ "objapi" \in Feat /\ up[r] /\ Budget
    /\ (Tree(r, RAW) = {} \/ W(r, RAW) # NoRev)
    /\ StageOne(r, RAW, NewRevs(r, RAW, CV(v)), "obj_update", v)
ObjDelete(r) ==
    /\ "objapi" \in Feat /\ up[r] /\ Budget
    /\ StageOne(r, RAW, DelRevs(r, RAW), "obj_delete", 0)
ObjRemove(r) ==         \* drops the object's staged revisions; deletes it if it has a committed history
    /\ "objapi" \in Feat /\ up[r] /\ Budget /\ Tree(r, RAW) # {}
    /\ LET T == TreeC(r, RAW)  w == Core!Winner(T) IN
       /\ staged' = [staged EXCEPT ![r][RAW] = IF T = {} \/ w = NoRev \/ RIsDel(w) \/ RIsRes(w) THEN {} ELSE {Append(w, DEL)}]
       /\ UNCHANGED <<sobjs, ocache>>
    /\ cnt' = Tick
    /\ act' = [n |-> "obj_remove", r |-> r, o |-> RAW]
    /\ sched' = Append(sched, [op |-> "obj_remove", r |-> RIndex(r), o |-> 0, val |-> 0])
    /\ UNCHANGED <<store, known, applied, apacks, up>>

-----------------------------------------------------------------------------
(* resolve_as(o, leaf): re-assert the chosen state on the winner, seal the other leaves *)
ResolveRevs(r, o, leaf) ==
    LET T == Tree(r, o)
        w == Core!Winner(T)
        re == IF o \in ArrObjs
              THEN (LET mo == MergedOrder(T, leaf) IN IF OrderOf(w) = mo THEN {} ELSE {Append(w, Ca(mo))})
              ELSE IF RIsDel(leaf)
                   THEN (IF "resolve_marker_value" \in Bug THEN {Append(w, CV(MinVal))}
                         ELSE IF RIsDel(w) THEN {} ELSE {Append(w, DEL)})
                   ELSE (IF Last(w) = Last(leaf) THEN {} ELSE {Append(w, Last(leaf))})
        T2 == T \cup {Entry(x, TRUE) : x \in re}
        w2 == Core!Winner(T2)
        seals == IF "no_seal" \in Bug THEN {} ELSE {Append(x, RES) : x \in Core!LiveLeaves(T2) \ {w2}}
    IN re \cup seals

Resolve(r, o, leaf) ==
    /\ "resolve" \in Feat /\ up[r] /\ Budget
    /\ leaf \in Leaves(r, o) /\ Cardinality(Leaves(r, o)) > 1
    /\ LET new == ResolveRevs(r, o, leaf) IN
       /\ staged' = [staged EXCEPT ![r][o] = @ \cup new]
       /\ sobjs' = [sobjs EXCEPT ![r] = @ \cup StageObjs(r, new)]
       /\ ocache' = Cached(r, new)
    /\ cnt' = Tick
    /\ act' = [n |-> "Resolve", r |-> r, o |-> o, leaf |-> leaf]
    /\ sched' = Append(sched, [op |-> "resolve_by", r |-> RIndex(r), o |-> o, idx |-> Len(leaf), k |-> Last(leaf).k,
                                v |-> Last(leaf).v, ord |-> Last(leaf).o])
    /\ UNCHANGED <<store, known, applied, apacks, up>>

-----------------------------------------------------------------------------
(* commit(): auto-resolution, pack write, block write, registration *)
AutoResolved(r) ==       \* staged revisions and objects after step 1
    LET conf == {a \in ArrObjs : Tree(r, a) # {} /\ Cardinality(Leaves(r, a)) > 1}
        new == [o \in Obj |-> IF o \in conf /\ ~("no_autoresolve" \in Bug) THEN ResolveRevs(r, o, W(r, o)) ELSE {}]
    IN [st |-> [o \in Obj |-> staged[r][o] \cup new[o]],
        so |-> sobjs[r] \cup StageObjs(r, UNION {new[o] : o \in Obj}),
        new |-> UNION {new[o] : o \in Obj}]

PackItem(r, objs) == [name |-> <<"p", r, cnt.blocks + 1>>, kind |-> "pack", ok |-> TRUE, idx |-> 0, parents |-> {}, packs |-> {},
                   changes |-> {}, objs |-> objs]
BlockItem(r, st, packnames) ==
    LET hs == Heads(r)
        idx == 1 + (IF hs = {} THEN 0 ELSE Max({b.idx : b \in {x \in MemBlocks(r) : x.name \in hs}}))
    IN [name |-> <<"b", r, cnt.blocks + 1>>, kind |-> "delta", ok |-> TRUE, idx |-> idx,
        parents |-> IF "parents_all_applied" \in Bug THEN applied[r] ELSE hs,
        packs |-> packnames,
        changes |-> UNION {{[o |-> o, rev |-> x, prev |-> IF Len(x) = 1 THEN NoRev ELSE Front(x)] : x \in st[o]} : o \in Obj},
        objs |-> {}]

\* Feat "reader2" (a bound, used by MC_cache): replica 2 only receives files and never commits
CanCommit(r) == up[r] /\ Budget /\ HasStaging(r) /\ cnt.blocks < MaxBlocks /\ ~("reader2" \in Feat /\ r = 2)

\* a commit in which `nw` storage writes succeed; mode: "ok" | "crash" | "fail"
CommitOutcome(r, nw, mode) ==
    LET ar == AutoResolved(r)
        haspack == ar.so # {}
        pack == PackItem(r, ar.so)
        packnames == IF haspack THEN {pack.name} ELSE {}
        block == BlockItem(r, ar.st, packnames)
        writes == IF "block_before_pack" \in Bug
                  THEN (IF haspack THEN <<block, pack>> ELSE <<block>>)
                  ELSE (IF haspack THEN <<pack, block>> ELSE <<block>>)
        total == Len(writes)
        done == {writes[i] : i \in 1..nw}
    IN
    /\ nw \in 0..total
    /\ mode = "ok" => nw = total
    /\ mode = "fail" => nw < total
    /\ store' = [store EXCEPT ![r] = @ \cup done]
    /\ IF mode = "crash" THEN Down(r)
       ELSE /\ UNCHANGED up
            /\ ocache' = Cached(r, ar.new)
            /\ IF mode = "ok"
               THEN /\ known' = [known EXCEPT ![r] = @ \cup {block}]
                    /\ applied' = [applied EXCEPT ![r] = @ \cup {block.name}]
                    /\ apacks' = [apacks EXCEPT ![r] = IF haspack THEN @ \cup {pack} ELSE @]
                    /\ staged' = [staged EXCEPT ![r] = [o \in Obj |-> {}]]
                    /\ sobjs' = [sobjs EXCEPT ![r] = {}]
               ELSE \* a write failed: error returned; what was done before it stays done
                    /\ UNCHANGED <<known, applied>>
                    /\ staged' = [staged EXCEPT ![r] = ar.st]
                    /\ IF pack \in done
                       THEN /\ apacks' = [apacks EXCEPT ![r] = @ \cup {pack}] /\ sobjs' = [sobjs EXCEPT ![r] = {}]
                       ELSE /\ UNCHANGED apacks
                            /\ sobjs' = [sobjs EXCEPT ![r] = IF "stage_cleared_early" \in Bug THEN {} ELSE ar.so]
    /\ act' = [n |-> "Commit", r |-> r, mode |-> mode, nw |-> nw, total |-> total, block |-> block,
               wrote |-> [i \in 1..nw |-> writes[i]]]

CommitOK(r) ==
    /\ CanCommit(r)
    /\ \E nw \in 1..2 : CommitOutcome(r, nw, "ok")
    /\ cnt' = Bump("blocks")
    /\ sched' = Append(sched, [op |-> "commit", r |-> RIndex(r), bn |-> cnt.blocks + 1])

CommitCrash(r) ==
    /\ "crash" \in Feat /\ CanCommit(r) /\ cnt.crash < MaxCrash
    /\ \E nw \in 0..2 : /\ CommitOutcome(r, nw, "crash")
                        /\ sched' = Append(sched, [op |-> "commit", r |-> RIndex(r), bn |-> cnt.blocks + 1, crash_at |-> nw])
    /\ cnt' = [Bump("crash") EXCEPT !.blocks = @ + 1]

CommitFail(r) ==
    /\ "fail" \in Feat /\ CanCommit(r) /\ cnt.fail < MaxFail
    /\ \E nw \in 0..1 : /\ CommitOutcome(r, nw, "fail")
                        /\ sched' = Append(sched, [op |-> "commit", r |-> RIndex(r), bn |-> cnt.blocks + 1, fail |-> <<nw + 1>>])
    /\ cnt' = [Bump("fail") EXCEPT !.blocks = @ + 1]

EmptyCommit(r) ==       \* nothing staged: returns None, writes nothing
    /\ up[r] /\ Budget /\ ~HasStaging(r)
    /\ cnt' = Tick
    /\ act' = [n |-> "EmptyCommit", r |-> r]
    /\ sched' = Append(sched, [op |-> "commit", r |-> RIndex(r)])
    /\ UNCHANGED <<store, known, applied, apacks, staged, sobjs, ocache, up>>

-----------------------------------------------------------------------------
(* loading: refresh / reload / reopen / reload_until *)
GoodBlocks(S) == {b \in BlocksOf(S) : b.ok}
\* which of the blocks B pass check_delta, given the packs P the replica has indexed
Gated(B, P) ==
    IF "no_gating" \in Bug THEN Core!Names(B)
    ELSE IF "parents_only_gating" \in Bug
         THEN Core!Names(Core!CC({[b EXCEPT !.changes = {}, !.packs = {}] : b \in B}))
    ELSE Core!Names(Core!CC(B \cup P))

\* reload: everything from scratch; fails when a stored pack does not hash to its name
ReloadOK(r) == \A p \in PacksOf(store[r]) : p.ok
DoReload(r) ==
    /\ apacks' = [apacks EXCEPT ![r] = PacksOf(store[r])]
    /\ known' = [known EXCEPT ![r] = GoodBlocks(store[r])]
    /\ ocache' = ReloadedCache(r)
    /\ applied' = [applied EXCEPT ![r] = Gated(GoodBlocks(store[r]), PacksOf(store[r]) \cup CacheItems(ReloadedCache(r)[r]))]

Reload(r) ==
    /\ "reload" \in Feat /\ up[r] /\ Budget /\ ~HasStaging(r) /\ ReloadOK(r)
    /\ DoReload(r)
    /\ cnt' = Tick
    /\ act' = [n |-> "Reload", r |-> r]
    /\ sched' = Append(sched, [op |-> "reload", r |-> RIndex(r)])
    /\ UNCHANGED <<store, staged, sobjs, up>>

Reopen(r) ==
    /\ ~up[r] /\ Budget /\ ReloadOK(r)
    /\ up' = [up EXCEPT ![r] = TRUE]
    /\ DoReload(r)
    /\ cnt' = Tick
    /\ act' = [n |-> "Reopen", r |-> r]
    /\ sched' = Append(sched, [op |-> "reopen", r |-> RIndex(r)])
    /\ UNCHANGED <<store, staged, sobjs>>

\* refresh: incremental.  Packs already indexed are not read again and blocks already loaded stay
\* loaded (so later damage to them goes unnoticed: finding P10); new packs must hash correctly;
\* blocks held back earlier are examined again.
NewPacks(r) == {p \in PacksOf(store[r]) : ~\E q \in apacks[r] : q.name = p.name}
Refresh(r) ==
    /\ up[r] /\ Budget /\ ~HasStaging(r)
    /\ \A p \in NewPacks(r) : p.ok
    /\ LET ap == apacks[r] \cup NewPacks(r)
           kn == known[r] \cup {b \in GoodBlocks(store[r]) : ~\E q \in known[r] : q.name = b.name}
           cand == IF "blocked_forever" \in Bug
                   THEN {b \in kn : b \notin known[r] \/ b.name \in applied[r]}
                   ELSE kn
       IN
       /\ apacks' = [apacks EXCEPT ![r] = ap]
       /\ known' = [known EXCEPT ![r] = kn]
       /\ applied' = [applied EXCEPT ![r] = @ \cup Gated(cand, ap \cup CacheItems(ocache[r]))]
    /\ cnt' = Tick
    /\ act' = [n |-> "Refresh", r |-> r]
    /\ sched' = Append(sched, [op |-> "refresh", r |-> RIndex(r)])
    /\ UNCHANGED <<store, staged, sobjs, ocache, up>>

HeadSetsSeen == {p[1] : p \in seen}
RECURSIVE FirstParents(_, _)
FirstParents(B, n) == LET b == CHOOSE x \in B : x.name = n IN
                      IF b.parents = {} THEN {n} ELSE {n} \cup FirstParents(B, CHOOSE p \in b.parents : TRUE)
ReloadUntil(r, H) ==
    /\ "travel" \in Feat /\ up[r] /\ Budget /\ ~HasStaging(r) /\ ReloadOK(r)
    /\ H # {} /\ H \subseteq Gated(GoodBlocks(store[r]), PacksOf(store[r]))
    /\ apacks' = [apacks EXCEPT ![r] = PacksOf(store[r])]
    /\ known' = [known EXCEPT ![r] = GoodBlocks(store[r])]
    /\ applied' = [applied EXCEPT ![r] =
                      IF "first_parent_only" \in Bug THEN UNION {FirstParents(GoodBlocks(store[r]), n) : n \in H}
                      ELSE Core!Anc(GoodBlocks(store[r]), H)]
    /\ cnt' = Tick
    /\ act' = [n |-> "ReloadUntil", r |-> r, H |-> H]
    /\ sched' = Append(sched, [op |-> "reload_until_set", r |-> RIndex(r), H |-> H])
    /\ ocache' = ReloadedCache(r)
    /\ UNCHANGED <<store, staged, sobjs, up>>

-----------------------------------------------------------------------------
(* storage-level transfers *)
Has(S, it) == \E x \in S : x.kind = it.kind /\ x.name = it.name
Copy(r, s, it) ==       \* any file synchroniser: one item, any order
    /\ "copy" \in Feat /\ Budget /\ r # s
    /\ it \in store[s] /\ ~Has(store[r], it)
    /\ store' = [store EXCEPT ![r] = @ \cup {it}]
    /\ cnt' = Tick
    /\ act' = [n |-> "Copy", r |-> r, it |-> it]
    /\ sched' = Append(sched, [op |-> "copy_item", r |-> RIndex(r), s |-> RIndex(s), kind |-> it.kind, name |-> it.name])
    /\ UNCHANGED <<known, applied, apacks, staged, sobjs, ocache, up>>

\* meld(other): the blocks `s` has loaded and the packs `s` has indexed, re-read (and hash-checked)
\* from s's storage; blocks are written first, then packs
MeldBlocks(r, s) == {b \in GoodBlocks(store[s]) : (\E q \in known[s] : q.name = b.name) /\ ~(\E q \in known[r] : q.name = b.name)
                                                   /\ ~Has(store[r], b)}
MeldPacks(r, s) == IF "meld_skips_packs" \in Bug THEN {}
                   ELSE {p \in PacksOf(store[s]) : p.ok /\ (\E q \in apacks[s] : q.name = p.name)
                                                   /\ ~(\E q \in apacks[r] : q.name = p.name) /\ ~Has(store[r], p)}
Meld(r, s) ==
    /\ "meld" \in Feat /\ r # s /\ up[r] /\ up[s] /\ Budget
    /\ MeldBlocks(r, s) \cup MeldPacks(r, s) # {}
    /\ store' = [store EXCEPT ![r] = @ \cup MeldBlocks(r, s) \cup MeldPacks(r, s)]
    /\ cnt' = Tick
    /\ act' = [n |-> "Meld", r |-> r, s |-> s]
    /\ sched' = Append(sched, [op |-> "meld", r |-> RIndex(r), s |-> RIndex(s)])
    /\ UNCHANGED <<known, applied, apacks, staged, sobjs, ocache, up>>

MeldCrash(r, s) ==      \* the process stops after a prefix of meld's writes (all blocks before any pack)
    /\ "meld" \in Feat /\ "crash" \in Feat /\ r # s /\ up[r] /\ up[s] /\ Budget /\ cnt.crash < MaxCrash
    /\ LET mb == MeldBlocks(r, s)  mp == MeldPacks(r, s) IN
       /\ mb \cup mp # {}
       /\ \E bs \in SUBSET mb : \E ps \in SUBSET mp :
             /\ (ps # {} => bs = mb)
             /\ bs \cup ps # mb \cup mp
             /\ store' = [store EXCEPT ![r] = @ \cup bs \cup ps]
             /\ sched' = Append(sched, [op |-> "meld", r |-> RIndex(r), s |-> RIndex(s), crash_at |-> Cardinality(bs \cup ps)])
    /\ Down(r)
    /\ cnt' = Bump("crash")
    /\ act' = [n |-> "MeldCrash", r |-> r, s |-> s]

Crash(r) ==             \* the process stops between operations
    /\ "crash" \in Feat /\ up[r] /\ Budget /\ cnt.crash < MaxCrash
    /\ Down(r)
    /\ cnt' = Bump("crash")
    /\ act' = [n |-> "Crash", r |-> r]
    /\ sched' = Append(sched, [op |-> "crash", r |-> RIndex(r)])
    /\ UNCHANGED store

-----------------------------------------------------------------------------
(* unstage, snapshot *)
Unstage(r) ==
    /\ "unstage" \in Feat /\ up[r] /\ Budget /\ (HasStaging(r) \/ sobjs[r] # {})
    /\ staged' = [staged EXCEPT ![r] = [o \in Obj |-> IF "unstage_keeps_new" \in Bug /\ TreeC(r, o) = {} THEN @[o] ELSE {}]]
    /\ sobjs' = [sobjs EXCEPT ![r] = {}]
    /\ ocache' = [ocache EXCEPT ![r] = IF "unstage_keeps_cache" \in Bug THEN @ ELSE @ \ sobjs[r]]
    /\ cnt' = Tick
    /\ act' = [n |-> "Unstage", r |-> r]
    /\ sched' = Append(sched, [op |-> "unstage", r |-> RIndex(r)])
    /\ UNCHANGED <<store, known, applied, apacks, up>>

SnapshotRevs(r, a) ==
    LET T == Tree(r, a)  w == Core!Winner(T) IN
    IF T = {} \/ w = NoRev \/ RIsDel(w) THEN {}
    ELSE IF \E lf \in Core!LiveLeaves(T) : Last(lf).k = "a"
         THEN {Append(w, CA(IF "snapshot_unmerged" \in Bug THEN <<>> ELSE MergedOrder(T, w)))}
         ELSE {}
Snapshot(r) ==
    /\ "snapshot" \in Feat /\ up[r] /\ Budget
    /\ LET new == [o \in Obj |-> IF o \in ArrObjs THEN SnapshotRevs(r, o) ELSE {}] IN
       /\ \E o \in Obj : new[o] # {}
       /\ staged' = [staged EXCEPT ![r] = [o \in Obj |-> @[o] \cup new[o]]]
       /\ sobjs' = [sobjs EXCEPT ![r] = @ \cup StageObjs(r, UNION {new[o] : o \in Obj})]
       /\ ocache' = Cached(r, UNION {new[o] : o \in Obj})
    /\ cnt' = Tick
    /\ act' = [n |-> "Snapshot", r |-> r]
    /\ sched' = Append(sched, [op |-> "snapshot", r |-> RIndex(r)])
    /\ UNCHANGED <<store, known, applied, apacks, up>>

-----------------------------------------------------------------------------
(* damage to stored items (driver-level faults, C10) *)
Damage(r, it) ==
    /\ "damage" \in Feat /\ Budget /\ cnt.damage < MaxDamage
    /\ it \in store[r] /\ it.ok
    /\ \/ /\ store' = [store EXCEPT ![r] = (@ \ {it}) \cup {[it EXCEPT !.ok = FALSE]}]   \* flipped / truncated
          /\ sched' = Append(sched, [op |-> "damage_item", r |-> RIndex(r), kind |-> it.kind, name |-> it.name, how |-> "flip"])
       \/ /\ store' = [store EXCEPT ![r] = @ \ {it}]                                     \* deleted
          /\ sched' = Append(sched, [op |-> "damage_item", r |-> RIndex(r), kind |-> it.kind, name |-> it.name, how |-> "delete"])
    /\ cnt' = Bump("damage")
    /\ act' = [n |-> "Damage", r |-> r, it |-> it]
    /\ UNCHANGED <<known, applied, apacks, staged, sobjs, ocache, up>>

-----------------------------------------------------------------------------
Quiescent(r) == up[r] /\ ~HasStaging(r)
Step ==
    \E r \in Replica :
        \/ \E d \in Docs : Edit(r, d)
        \/ CommitOK(r) \/ CommitCrash(r) \/ CommitFail(r) \/ EmptyCommit(r)
        \/ Refresh(r) \/ Reload(r) \/ Reopen(r) \/ Crash(r)
        \/ Unstage(r) \/ Snapshot(r)
        \/ (\E v \in Val : ObjCreate(r, v) \/ ObjUpdate(r, v)) \/ ObjDelete(r) \/ ObjRemove(r)
        \/ \E o \in Obj : \E lf \in Leaves(r, o) : Resolve(r, o, lf)
        \/ \E H \in HeadSetsSeen : ReloadUntil(r, H)
        \/ \E s \in Replica \ {r} : Meld(r, s) \/ MeldCrash(r, s) \/ \E it \in store[s] : Copy(r, s, it)
        \/ \E it \in store[r] : Damage(r, it)

\* the views replicas show at their head sets are recorded for time travel (C14)
Next ==
    /\ Step
    /\ seen' = IF "travel" \in Feat
               THEN LET memN(r) == [blocks |-> {b \in known'[r] : b.name \in applied'[r]}, st |-> staged'[r]]
                        quiet == {x \in Replica : up'[x] /\ (\A o \in Obj : staged'[x][o] = {}) /\ memN(x).blocks # {}}
                    IN seen \cup {<<Core!HeadsOf(memN(r).blocks), ViewM(memN(r))>> : r \in quiet}
               ELSE seen

Spec == Init /\ [][Next]_vars

=============================================================================
