---------------------------- MODULE ArrayMergeMC ----------------------------
(* TLC shows that the transcription of merge_arrays satisfies the C06 relation on every ordered
   pair of duplicate-free sequences of the bound (evaluated as ASSUMEs at start-up), and the
   script semantics round-trips simple edits. *)
EXTENDS ArrayMerge, TLC
CONSTANTS Syms, MaxLen
DupFree == {s \in UNION {[1..k -> Syms] : k \in 0..MaxLen} : NoDup(s)}
ASSUME PrintT(<<"PAIRS", Cardinality(DupFree) * Cardinality(DupFree)>>)
ASSUME \A m, n \in DupFree : MergeOK(m, n, Merge(m, n))
ASSUME \A a, b, n \in {s \in DupFree : Len(s) <= 2} : FoldOK({a, b}, n, Merge(b, Merge(a, n)))
VARIABLE x
Init == x = 0
Next == x' = x
=============================================================================
