#!/bin/sh
# Offline setup: build the harness (and libmelda with the verification hooks) from files on disk.
set -e
cd "$(dirname "$0")"
cp /repo/Cargo.lock harness/Cargo.lock
(cd harness && CARGO_NET_OFFLINE=true cargo build --release --offline)
mkdir -p out evidence
echo setup ok
